//! Self-test of the monitors: a hand-written subject (no enum-tools involved) which is
//! correct when FAULT == 0 and carries one deliberate defect per fault number.  Every
//! oracle must stay silent on the correct subject and fire on its own fault.

use monitor::checks::Budget;
use monitor::check_case;
use monitor_core::{run_history, run_history_ord, Op, Sink, VTable, Val, D};
#[allow(unused_imports)]
use run_history_ord as _;
use std::sync::atomic::{AtomicU32, Ordering::SeqCst};

static FAULT: AtomicU32 = AtomicU32::new(0);

fn fault() -> u32 {
    FAULT.load(SeqCst)
}

// declaration order: D=3, A=-10, C=-4, B=-5 ; names: B is renamed
static MODEL: [(D, &str); 4] = [(3, "D"), (-10, "A"), (-4, "C"), (-5, "B*")];
static IDENTS: [&str; 4] = ["D", "A", "C", "B"];
const SORTED: [(D, &str); 4] = [(-10, "A"), (-5, "B*"), (-4, "C"), (3, "D")];

fn disc(i: usize) -> D {
    MODEL[i].0
}

fn try_from_fn(b: u128) -> Option<D> {
    let v = b as i8 as D;
    if fault() == 1 && v == -7 {
        return Some(-7); // accepts a value in a hole (and returns a non-member)
    }
    if fault() == 2 && v == 3 {
        return None; // loses the last run
    }
    SORTED.iter().find(|x| x.0 == v).map(|x| x.0)
}

fn into_fn(i: usize) -> D {
    if fault() == 3 && i == 2 {
        return -3;
    }
    MODEL[i].0
}

fn as_str(i: usize) -> &'static str {
    if fault() == 4 && MODEL[i].0 == -4 {
        return "A"; // the D1 symptom
    }
    if fault() == 5 && i == 3 {
        return "B"; // rename ignored
    }
    MODEL[i].1
}

fn display(i: usize, w: &mut dyn core::fmt::Write) -> core::fmt::Result {
    if fault() == 6 {
        return write!(w, "{:?}", MODEL[i].1); // quotes around the name
    }
    w.write_str(MODEL[i].1)
}

fn from_str_fn(s: &str) -> Option<D> {
    if fault() == 7 {
        return SORTED.iter().find(|x| x.1.eq_ignore_ascii_case(s)).map(|x| x.0);
    }
    if fault() == 8 && s == "B" {
        return Some(-5); // accepts the identifier of a renamed variant
    }
    if fault() == 9 && s == "D" {
        return None;
    }
    SORTED.iter().find(|x| x.1 == s).map(|x| x.0)
}

fn lossy(s: &str, bits: u32) -> u32 {
    let mut h = 0x811c_9dc5u32;
    for b in s.bytes() {
        h = (h ^ b as u32).wrapping_mul(0x0100_0193);
    }
    h & ((1 << bits) - 1)
}

fn from_str_trait(s: &str) -> Option<D> {
    match fault() {
        // a digest which ignores the order of the bytes ("*B" is accepted for "B*")
        50 => {
            let key = |t: &str| {
                let mut v: Vec<u8> = t.bytes().collect();
                v.sort();
                v
            };
            SORTED.iter().find(|x| key(x.1) == key(s)).map(|x| x.0)
        }
        // a comparison of the length and of the first byte only
        51 => SORTED
            .iter()
            .find(|x| x.1.len() == s.len() && x.1.bytes().next() == s.bytes().next())
            .map(|x| x.0),
        // a 12 bit digest without a final comparison: only the volume stage can see it
        52 => SORTED.iter().find(|x| lossy(x.1, 12) == lossy(s, 12)).map(|x| x.0),
        _ => SORTED.iter().find(|x| x.1 == s).map(|x| x.0),
    }
}

fn min() -> D {
    if fault() == 10 {
        return 3; // first declared instead of smallest
    }
    -10
}

fn max() -> D {
    3
}

fn next(i: usize) -> Option<D> {
    let d = MODEL[i].0;
    let p = SORTED.iter().position(|x| x.0 == d).unwrap();
    if fault() == 11 && d == -5 {
        return Some(3); // skips a variant
    }
    if fault() == 12 && d == 3 {
        return Some(-10); // wraps at MAX
    }
    SORTED.get(p + 1).map(|x| x.0)
}

fn next_back(i: usize) -> Option<D> {
    let d = MODEL[i].0;
    let p = SORTED.iter().position(|x| x.0 == d).unwrap();
    if p == 0 {
        None
    } else {
        Some(SORTED[p - 1].0)
    }
}

struct It {
    v: Vec<Val>,
    lo: usize,
    hi: usize,
}

impl Iterator for It {
    type Item = Val;
    fn next(&mut self) -> Option<Val> {
        if self.lo < self.hi {
            self.lo += 1;
            Some(self.v[self.lo - 1])
        } else {
            if fault() == 20 && self.lo > 0 {
                // not fused: yields again after None
                self.lo -= 1;
            }
            None
        }
    }
    fn size_hint(&self) -> (usize, Option<usize>) {
        let r = self.hi - self.lo;
        if fault() == 21 {
            return (r, None);
        }
        (r, Some(r))
    }
}

impl DoubleEndedIterator for It {
    fn next_back(&mut self) -> Option<Val> {
        if self.lo < self.hi {
            self.hi -= 1;
            Some(self.v[self.hi])
        } else {
            None
        }
    }
    fn nth_back(&mut self, n: usize) -> Option<Val> {
        if fault() == 22 {
            return self.nth(n); // mis-forwarded
        }
        for _ in 0..n {
            self.next_back()?;
        }
        self.next_back()
    }
    fn rfold<B, F: FnMut(B, Val) -> B>(mut self, init: B, mut f: F) -> B {
        let mut acc = init;
        if fault() == 23 {
            while let Some(x) = self.next() {
                acc = f(acc, x); // rfold forwarded to fold
            }
            return acc;
        }
        while let Some(x) = self.next_back() {
            acc = f(acc, x);
        }
        acc
    }
}

impl ExactSizeIterator for It {
    fn len(&self) -> usize {
        if fault() == 24 && self.lo > 0 && self.hi < self.v.len() {
            return self.hi - self.lo + 1; // drifts once both ends moved
        }
        self.hi - self.lo
    }
}

fn all_vals() -> Vec<Val> {
    SORTED.iter().map(|x| Val::D(x.0)).collect()
}

fn id(v: Val) -> Val {
    v
}

fn iter(ops: &[Op], sink: &mut dyn Sink) {
    let mut v = all_vals();
    if fault() == 25 {
        v.swap(1, 2); // table not in value order
    }
    if fault() == 26 {
        v[2] = Val::D(-3); // yields a non-member
    }
    let hi = v.len();
    run_history(It { v, lo: 0, hi }, ops, id, sink)
}

fn range(a: usize, b: usize, ops: &[Op], sink: &mut dyn Sink) {
    let pa = SORTED.iter().position(|x| x.0 == MODEL[a].0).unwrap();
    let pb = SORTED.iter().position(|x| x.0 == MODEL[b].0).unwrap();
    if fault() == 30 && pa > pb + 1 {
        panic!("slice index starts at {pa} but ends at {pb}"); // the D2 symptom
    }
    let v: Vec<Val> = if pa <= pb {
        if fault() == 31 && pa < pb {
            all_vals()[pa..pb].to_vec() // exclusive end
        } else {
            all_vals()[pa..=pb].to_vec()
        }
    } else {
        vec![]
    };
    let hi = v.len();
    run_history(It { v, lo: 0, hi }, ops, id, sink)
}

fn names(ops: &[Op], sink: &mut dyn Sink) {
    let mut v: Vec<Val> = SORTED.iter().map(|x| Val::S(x.1)).collect();
    if fault() == 40 {
        v = MODEL.iter().map(|x| Val::S(x.1)).collect(); // declaration order
    }
    let hi = v.len();
    run_history_ord(It { v, lo: 0, hi }, ops, id, sink)
}

fn zip(sink: &mut dyn Sink) {
    for (i, x) in SORTED.iter().enumerate() {
        let name = if fault() == 41 { SORTED[(i + 1) % 4].1 } else { x.1 };
        sink.pair(x.0, name);
    }
}

static VT: VTable = VTable {
    id: 1,
    n: 4,
    rbits: 8,
    rsigned: true,
    model: &MODEL,
    idents: &IDENTS,
    probe_lo: -128,
    probe_hi: 127,
    disc,
    try_from_fn: Some(try_from_fn),
    try_from_trait: None,
    into_fn: Some(into_fn),
    into_trait: None,
    as_str: Some(as_str),
    display: Some(display),
    debug: None,
    into_str: None,
    from_str_fn: Some(from_str_fn),
    from_str_trait: Some(from_str_trait),
    min: Some(min),
    max: Some(max),
    next: Some(next),
    next_back: Some(next_back),
    iter: Some(iter),
    range: Some(range),
    names: Some(names),
    zip: Some(zip),
};

fn verdict(prop: &str) -> (u64, u64, Vec<String>) {
    let b = Budget::preset("quick").unwrap();
    let r = check_case(&VT, prop, &b, 7);
    assert!(r.harness.is_empty(), "harness errors: {:?}", r.harness);
    assert!(r.events > 0, "{prop} observed nothing");
    (
        r.viol_count,
        r.nonmember_count,
        r.viol.iter().map(|v| format!("{}: {}", v.0, v.1)).collect(),
    )
}

#[test]
fn oracles_fire_on_their_own_fault_and_only_then() {
    // silence the default panic output of the deliberate D2-style panic
    std::panic::set_hook(Box::new(|info| {
        // only the self-test's own assertion failures are shown
        if info.location().map_or(false, |l| l.file().ends_with("selftest.rs") && l.line() > 260) {
            eprintln!("{info}");
        }
    }));
    let props = ["C01", "C03", "C04", "C05", "C06", "C07", "C08"];
    FAULT.store(0, SeqCst);
    for p in props {
        let (v, n, w) = verdict(p);
        assert_eq!((v, n), (0, 0), "{p} raised an alarm on the correct subject: {w:?}");
    }
    // fault -> the property which must fire (all others must stay silent)
    let table: [(u32, &str); 29] = [
        (1, "C01"),
        (2, "C01"),
        (3, "C01"),
        (4, "C03"),
        (5, "C03"),
        (6, "C03"),
        (7, "C04"),
        (8, "C04"),
        (9, "C04"),
        (50, "C04"),
        (51, "C04"),
        (52, "C04"),
        (10, "C05"),
        (11, "C05"),
        (12, "C05"),
        (20, "C06"),
        (21, "C06"),
        (22, "C06"),
        (23, "C06"),
        (24, "C06"),
        (25, "C06"),
        (26, "C06"),
        (30, "C07"),
        (31, "C07"),
        (40, "C08"),
        (41, "C08"),
        // faults of the shared iterator struct are also visible through names() and range()
        (22, "C08"),
        (23, "C07"),
        (24, "C08"),
    ];
    for (f, must) in table {
        FAULT.store(f, SeqCst);
        let (v, _n, w) = verdict(must);
        assert!(v > 0, "fault {f} not detected by {must}");
        assert!(!w.is_empty());
        // properties which do not touch the faulty item stay silent
        let shared_iter = (20..=24).contains(&f);
        for p in props {
            if p == must || (shared_iter && ["C06", "C07", "C08"].contains(&p)) {
                continue;
            }
            let (v, _, w) = verdict(p);
            assert_eq!(v, 0, "fault {f} (for {must}) raised an alarm in {p}: {w:?}");
        }
    }
    // membership monitor
    FAULT.store(1, SeqCst);
    assert!(verdict("C01").1 > 0, "non-member from try_from not flagged");
    FAULT.store(26, SeqCst);
    assert!(verdict("C06").1 > 0, "non-member from iter not flagged");
    // relational transcripts differ exactly for the faulty item
    FAULT.store(0, SeqCst);
    let base = check_case(&VT, "REL", &Budget::preset("quick").unwrap(), 7).digests;
    FAULT.store(31, SeqCst);
    let bad = check_case(&VT, "REL", &Budget::preset("quick").unwrap(), 7).digests;
    for (k, v) in &base {
        if k == "range" {
            assert_ne!(v.0, bad[k].0, "range transcript unchanged by fault 31");
        } else {
            assert_eq!(v.0, bad[k].0, "{k} transcript changed by a range fault");
        }
    }
    FAULT.store(0, SeqCst);
}
