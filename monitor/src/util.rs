//! small helpers: JSON text, PRNG, FNV digest

use std::fmt::Write;

pub fn jstr(s: &str) -> String {
    let mut out = String::with_capacity(s.len() + 2);
    out.push('"');
    for c in s.chars() {
        match c {
            '"' => out.push_str("\\\""),
            '\\' => out.push_str("\\\\"),
            '\n' => out.push_str("\\n"),
            '\r' => out.push_str("\\r"),
            '\t' => out.push_str("\\t"),
            c if (c as u32) < 0x20 => {
                let _ = write!(out, "\\u{:04x}", c as u32);
            }
            c => out.push(c),
        }
    }
    out.push('"');
    out
}

/// printable rendering of a byte string for witnesses (lossless: non-printables escaped)
pub fn show(s: &str) -> String {
    format!("{:?}", s)
}

#[derive(Clone)]
pub struct Rng(pub u64);

impl Rng {
    pub fn new(seed: u64) -> Self {
        Rng(seed ^ 0x9E37_79B9_7F4A_7C15)
    }
    pub fn next(&mut self) -> u64 {
        // splitmix64
        self.0 = self.0.wrapping_add(0x9E37_79B9_7F4A_7C15);
        let mut z = self.0;
        z = (z ^ (z >> 30)).wrapping_mul(0xBF58_476D_1CE4_E5B9);
        z = (z ^ (z >> 27)).wrapping_mul(0x94D0_49BB_1331_11EB);
        z ^ (z >> 31)
    }
    pub fn below(&mut self, n: u64) -> u64 {
        if n == 0 {
            0
        } else {
            self.next() % n
        }
    }
    pub fn u128(&mut self) -> u128 {
        ((self.next() as u128) << 64) | self.next() as u128
    }
    pub fn chance(&mut self, num: u64, den: u64) -> bool {
        self.below(den) < num
    }
}

#[derive(Clone, Copy)]
pub struct Fnv(pub u64);

impl Default for Fnv {
    fn default() -> Self {
        Fnv(0xcbf2_9ce4_8422_2325)
    }
}

impl Fnv {
    pub fn bytes(&mut self, b: &[u8]) {
        for x in b {
            self.0 ^= *x as u64;
            self.0 = self.0.wrapping_mul(0x0000_0100_0000_01b3);
        }
    }
    pub fn line(&mut self, s: &str) {
        self.bytes(s.as_bytes());
        self.bytes(b"\n");
    }
}

/// A transcript: digest always, full text only when requested.
#[derive(Default)]
pub struct Transcript {
    pub digest: Fnv,
    pub lines: u64,
    pub text: Option<Vec<String>>,
}

impl Transcript {
    pub fn new(keep: bool) -> Self {
        Transcript {
            digest: Fnv::default(),
            lines: 0,
            text: if keep { Some(Vec::new()) } else { None },
        }
    }
    pub fn line(&mut self, s: String) {
        self.digest.line(&s);
        self.lines += 1;
        if let Some(t) = &mut self.text {
            t.push(s);
        }
    }
}
