//! Monitors for enum-tools' generated code.  Compiled once; never generic over a subject.
//!
//! `main_with(all)` is the whole harness binary: it walks the registered cases in shards,
//! runs the requested property checkers and appends one JSON line per (case, property)
//! to `<out>/report-<shard>.jsonl`.  Before every case a marker file is rewritten so that
//! a process abort (Miri UB, rustc's debug UB checks, SIGSEGV) can be attributed.

pub mod checks;
pub mod hist;
pub mod model;
pub mod util;

use checks::{Budget, Report};
use model::Model;
use monitor_core::VTable;
use std::io::Write;
use util::Rng;

pub const PROPS: [&str; 9] = ["C01", "C03", "C04", "C05", "C06", "C07", "C08", "REL", "C02"];

fn install_panic_hook() {
    std::panic::set_hook(Box::new(|info| {
        let msg = if let Some(s) = info.payload().downcast_ref::<&str>() {
            s.to_string()
        } else if let Some(s) = info.payload().downcast_ref::<String>() {
            s.clone()
        } else {
            "<non-string panic>".to_string()
        };
        let loc = info
            .location()
            .map(|l| format!(" at {}:{}", l.file(), l.line()))
            .unwrap_or_default();
        checks::LAST_PANIC.with(|p| *p.borrow_mut() = format!("{msg}{loc}"));
    }));
}

/// run one property checker on one case
pub fn check_case(vt: &VTable, prop: &str, b: &Budget, seed: u64) -> Report {
    let mut rep = Report::new(vt.id, prop);
    let m = match Model::new(vt) {
        Ok(m) => m,
        Err(e) => {
            rep.harness(e);
            return rep;
        }
    };
    if !checks::self_check(vt, &mut rep) {
        return rep;
    }
    let mut rng = Rng::new(seed ^ ((vt.id as u64) << 20) ^ fxhash(prop));
    match prop {
        "C01" => checks::c01(vt, &m, b, &mut rng, &mut rep),
        "C03" => checks::c03(vt, &m, b, &mut rng, &mut rep),
        "C04" => {
            checks::c04(vt, &m, b, &mut rng, &mut rep);
            checks::c04_storm(vt, &m, b, &mut rng, &mut rep);
        }
        "C05" => checks::c05(vt, &m, b, &mut rng, &mut rep),
        "C06" => checks::c06(vt, &m, b, &mut rng, &mut rep),
        "C07" => checks::c07(vt, &m, b, &mut rng, &mut rep),
        "C08" => checks::c08(vt, &m, b, &mut rng, &mut rep),
        "C02" => {
            // everything, for the benefit of the UB instruments and the membership monitor
            checks::c01(vt, &m, b, &mut rng, &mut rep);
            checks::c03(vt, &m, b, &mut rng, &mut rep);
            checks::c04(vt, &m, b, &mut rng, &mut rep);
            checks::c05(vt, &m, b, &mut rng, &mut rep);
            checks::c06(vt, &m, b, &mut rng, &mut rep);
            checks::c07(vt, &m, b, &mut rng, &mut rep);
            checks::c08(vt, &m, b, &mut rng, &mut rep);
        }
        "REL" => {
            let ts = checks::transcripts(vt, &m, seed, None);
            for (k, t) in ts {
                rep.events += t.lines;
                rep.digests.insert(k, (t.digest.0, t.lines));
            }
        }
        other => rep.harness(format!("unknown property {other}")),
    }
    rep
}

fn fxhash(s: &str) -> u64 {
    let mut f = util::Fnv::default();
    f.bytes(s.as_bytes());
    f.0
}

struct Args {
    out: String,
    shard: usize,
    nshards: usize,
    props: Vec<String>,
    budget: Budget,
    seed: u64,
    only: Option<Vec<u32>>,
    after: Option<u32>,
    transcript: Option<(u32, String)>,
    list: bool,
    case_timeout: Option<u64>,
}

fn parse_args() -> Result<Args, String> {
    let mut a = Args {
        out: ".".into(),
        shard: 0,
        nshards: 1,
        props: vec![],
        budget: Budget::preset("quick").unwrap(),
        seed: 0,
        only: None,
        after: None,
        transcript: None,
        list: false,
        case_timeout: None,
    };
    let argv: Vec<String> = std::env::args().skip(1).collect();
    let mut i = 0;
    let need = |i: usize| -> Result<String, String> {
        argv.get(i + 1)
            .cloned()
            .ok_or_else(|| format!("missing value for {}", argv[i]))
    };
    while i < argv.len() {
        match argv[i].as_str() {
            "--out" => a.out = need(i)?,
            "--shard" => a.shard = need(i)?.parse().map_err(|_| "bad --shard")?,
            "--nshards" => a.nshards = need(i)?.parse().map_err(|_| "bad --nshards")?,
            "--props" => a.props = need(i)?.split(',').map(|s| s.to_string()).collect(),
            "--budget" => {
                a.budget =
                    Budget::preset(&need(i)?).ok_or_else(|| "unknown budget".to_string())?
            }
            "--set" => {
                let v = need(i)?;
                let (k, val) = v.split_once('=').ok_or("bad --set")?;
                a.budget.set(k, val)?;
            }
            "--seed" => a.seed = need(i)?.parse().map_err(|_| "bad --seed")?,
            "--only" => {
                a.only = Some(
                    need(i)?
                        .split(',')
                        .filter(|s| !s.is_empty())
                        .map(|s| s.parse().map_err(|_| "bad --only"))
                        .collect::<Result<_, _>>()?,
                )
            }
            "--after" => a.after = Some(need(i)?.parse().map_err(|_| "bad --after")?),
            "--case-timeout" => a.case_timeout = Some(need(i)?.parse().map_err(|_| "bad --case-timeout")?),
            "--transcript" => {
                let v = need(i)?;
                let (c, item) = v.split_once(':').ok_or("bad --transcript")?;
                a.transcript = Some((c.parse().map_err(|_| "bad case id")?, item.to_string()));
            }
            "--list" => {
                a.list = true;
                i += 1;
                continue;
            }
            other => return Err(format!("unknown argument {other}")),
        }
        i += 2;
    }
    Ok(a)
}

/// the harness binary's `main`
pub fn main_with(all: &[&[&'static VTable]]) {
    let args = match parse_args() {
        Ok(a) => a,
        Err(e) => {
            eprintln!("harness: {e}");
            std::process::exit(3);
        }
    };
    install_panic_hook();
    let mut cases: Vec<&'static VTable> = all.iter().flat_map(|c| c.iter().copied()).collect();
    cases.sort_by_key(|c| c.id);
    if args.list {
        for c in &cases {
            println!("{}", c.id);
        }
        return;
    }
    if let Some((id, item)) = &args.transcript {
        let vt = match cases.iter().find(|c| c.id == *id) {
            Some(vt) => vt,
            None => {
                eprintln!("harness: no case {id}");
                std::process::exit(3);
            }
        };
        let m = Model::new(vt).expect("model");
        let ts = checks::transcripts(vt, &m, args.seed, Some(item));
        if let Some(t) = ts.get(item.as_str()) {
            for l in t.text.as_ref().unwrap() {
                println!("{l}");
            }
        }
        return;
    }
    let report_path = format!("{}/report-{}.jsonl", args.out, args.shard);
    let marker_path = format!("{}/marker-{}", args.out, args.shard);
    let mut report = std::fs::OpenOptions::new()
        .create(true)
        .append(true)
        .open(&report_path)
        .expect("open report");
    // optional watchdog: a single (case, property) which runs longer than the limit aborts the process with a
    // recognisable line; the runner restarts the shard after that case and records it as inconclusive (a
    // wall-clock limit is never a verdict)
    static CASE_START: std::sync::atomic::AtomicU64 = std::sync::atomic::AtomicU64::new(0);
    let t_origin = std::time::Instant::now();
    if let Some(limit) = args.case_timeout {
        std::thread::spawn(move || loop {
            std::thread::sleep(std::time::Duration::from_millis(500));
            let start = CASE_START.load(std::sync::atomic::Ordering::SeqCst);
            if start != 0 && t_origin.elapsed().as_secs() > start + limit {
                eprintln!("CASE-TIMEOUT: a single case exceeded {limit} s");
                std::process::abort();
            }
        });
    }
    let mut done = 0u64;
    for (idx, vt) in cases.iter().enumerate() {
        if let Some(only) = &args.only {
            if !only.contains(&vt.id) {
                continue;
            }
        } else if idx % args.nshards != args.shard {
            continue;
        }
        if let Some(after) = args.after {
            if vt.id <= after {
                continue;
            }
        }
        for prop in &args.props {
            // marker first: an abort inside the case is attributed to it
            std::fs::write(&marker_path, format!("{} {}\n", vt.id, prop)).expect("marker");
            CASE_START.store(t_origin.elapsed().as_secs().max(1), std::sync::atomic::Ordering::SeqCst);
            let t0 = std::time::Instant::now();
            let mut rep = check_case(vt, prop, &args.budget, args.seed);
            rep.wall_ms = t0.elapsed().as_millis() as u64;
            let mut line = rep.to_json();
            line.push('\n');
            report.write_all(line.as_bytes()).expect("write report");
        }
        done += 1;
    }
    std::fs::write(&marker_path, "done\n").expect("marker");
    println!("harness: shard {}/{} checked {} cases", args.shard, args.nshards, done);
}
