//! Reference model of one enum: the (discriminant, name) list, sorted by discriminant.

use monitor_core::{VTable, D};

pub struct Model {
    /// sorted by discriminant: (disc, name, declaration index)
    pub sorted: Vec<(D, &'static str, usize)>,
    /// maximal runs of consecutive discriminants (inclusive)
    pub runs: Vec<(D, D)>,
    pub rmin: D,
    /// `None` when the maximum of the repr exceeds i128 (u128)
    pub rmax: Option<D>,
    pub rbits: u32,
    pub rsigned: bool,
}

impl Model {
    pub fn new(vt: &VTable) -> Result<Model, String> {
        if vt.model.len() != vt.n || vt.idents.len() != vt.n || vt.n == 0 {
            return Err(format!(
                "model/idents length mismatch: n={} model={} idents={}",
                vt.n,
                vt.model.len(),
                vt.idents.len()
            ));
        }
        let mut sorted: Vec<(D, &'static str, usize)> = vt
            .model
            .iter()
            .enumerate()
            .map(|(i, (d, s))| (*d, resolve_open_name(vt, i, s), i))
            .collect();
        sorted.sort_by_key(|x| x.0);
        for w in sorted.windows(2) {
            if w[0].0 == w[1].0 {
                return Err(format!("duplicate discriminant {} in model", w[0].0));
            }
        }
        let mut runs = Vec::new();
        let mut b = sorted[0].0;
        let mut l = b;
        for x in sorted.iter().skip(1) {
            if x.0 != l + 1 {
                runs.push((b, l));
                b = x.0;
            }
            l = x.0;
        }
        runs.push((b, l));
        let (rmin, rmax) = if vt.rsigned {
            if vt.rbits == 128 {
                (D::MIN, Some(D::MAX))
            } else {
                (-(1i128 << (vt.rbits - 1)), Some((1i128 << (vt.rbits - 1)) - 1))
            }
        } else if vt.rbits == 128 {
            (0, None)
        } else {
            (0, Some((1i128 << vt.rbits) - 1))
        };
        Ok(Model {
            sorted,
            runs,
            rmin,
            rmax,
            rbits: vt.rbits,
            rsigned: vt.rsigned,
        })
    }

    pub fn n(&self) -> usize {
        self.sorted.len()
    }

    pub fn min(&self) -> D {
        self.sorted[0].0
    }

    pub fn max(&self) -> D {
        self.sorted[self.sorted.len() - 1].0
    }

    pub fn pos(&self, d: D) -> Option<usize> {
        self.sorted.binary_search_by_key(&d, |x| x.0).ok()
    }

    pub fn contains(&self, d: D) -> bool {
        self.pos(d).is_some()
    }

    /// is `d` representable in the repr type
    pub fn in_repr(&self, d: D) -> bool {
        d >= self.rmin && self.rmax.map_or(true, |m| d <= m)
    }

    /// the bit pattern to hand to the adapter for value `d` (adapter truncates with `as`)
    pub fn pattern(&self, d: D) -> u128 {
        d as u128
    }

    /// the value of the repr type denoted by a bit pattern (None: above i128::MAX, u128 only)
    pub fn value(&self, bits: u128) -> Option<D> {
        if self.rbits == 128 {
            if self.rsigned {
                Some(bits as i128)
            } else if bits > i128::MAX as u128 {
                None
            } else {
                Some(bits as i128)
            }
        } else {
            let mask = (1u128 << self.rbits) - 1;
            let low = bits & mask;
            if self.rsigned && (low >> (self.rbits - 1)) & 1 == 1 {
                Some(low as i128 - (1i128 << self.rbits))
            } else {
                Some(low as i128)
            }
        }
    }

    /// classification of a probe value for evidence
    pub fn class(&self, d: Option<D>) -> &'static str {
        let d = match d {
            None => return "above_max",
            Some(d) => d,
        };
        if d < self.min() {
            "below_min"
        } else if d > self.max() {
            "above_max"
        } else if self.contains(d) {
            for (b, e) in &self.runs {
                if d == *b || d == *e {
                    return "run_boundary";
                }
            }
            "run_interior"
        } else {
            "hole"
        }
    }
}

/// A model name starting with U+0001 is left open by the generator (variant declared with a raw identifier:
/// `r#type` or `type`?).  It is learned from `as_str`, which must answer with one of the two spellings; every
/// other item is then checked against the learned name.  Without `as_str`, or with another answer, the
/// sentinel stays and every comparison on that variant fails.
fn resolve_open_name(vt: &VTable, i: usize, s: &'static str) -> &'static str {
    if !s.starts_with('\u{1}') {
        return s;
    }
    let raw = &s[1..];
    let plain = raw.strip_prefix("r#").unwrap_or(raw);
    if let Some(f) = vt.as_str {
        if let Ok(got) = crate::checks::guard(|| f(i)) {
            if got == raw || got == plain {
                return got;
            }
        }
    }
    s
}
