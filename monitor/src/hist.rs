//! The two-cursor iterator automaton (semantics of a slice iterator over the sorted
//! list), the online checker attached to it, and the history generators.

use crate::util::{show, Rng, Transcript};
use monitor_core::{Op, Sink, Val, D};
use std::collections::HashSet;

pub fn val_str(v: &Val) -> String {
    match v {
        Val::D(d) => format!("{d}"),
        Val::S(s) => show(s),
    }
}

pub fn opt_str(v: &Option<Val>) -> String {
    match v {
        None => "None".to_string(),
        Some(v) => format!("Some({})", val_str(v)),
    }
}

pub struct HistSink<'a> {
    pub expect: &'a [Val],
    pub lo: usize,
    pub hi: usize,
    pub ops: &'a [Op],
    cur: Option<(usize, Op)>,
    seq: Vec<Val>,
    pub events: u64,
    pub errs: Vec<String>,
    /// values seen which are not members of the value universe (C02)
    pub nonmembers: Vec<String>,
    pub universe: Option<&'a dyn Fn(D) -> bool>,
    pub states: Option<&'a mut HashSet<(usize, usize)>>,
    pub transcript: Option<&'a mut Transcript>,
    pub what: &'a str,
}

impl<'a> HistSink<'a> {
    pub fn new(what: &'a str, expect: &'a [Val], ops: &'a [Op]) -> Self {
        HistSink {
            expect,
            lo: 0,
            hi: expect.len(),
            ops,
            cur: None,
            seq: Vec::new(),
            events: 0,
            errs: Vec::new(),
            nonmembers: Vec::new(),
            universe: None,
            states: None,
            transcript: None,
            what,
        }
    }

    fn rem(&self) -> usize {
        self.hi - self.lo
    }

    fn ctx(&self) -> String {
        let upto = self.cur.map_or(0, |c| c.0 + 1);
        format!("{} after {:?}", self.what, &self.ops[..upto.min(self.ops.len())])
    }

    fn err(&mut self, msg: String) {
        if self.errs.len() < 4 {
            let c = self.ctx();
            self.errs.push(format!("{c}: {msg}"));
        }
    }

    fn seen(&mut self, v: &Val) {
        if let (Val::D(d), Some(u)) = (v, self.universe) {
            if !u(*d) && self.nonmembers.len() < 4 {
                let c = self.ctx();
                self.nonmembers
                    .push(format!("{c}: yielded {d} which is not a declared discriminant"));
            }
        }
    }

    fn note_state(&mut self) {
        let st = (self.lo, self.hi);
        if let Some(s) = &mut self.states {
            s.insert(st);
        }
    }

    fn tline(&mut self, s: String) {
        if let Some(t) = &mut self.transcript {
            t.line(s);
        }
    }
}

impl Sink for HistSink<'_> {
    fn op(&mut self, idx: usize, op: Op) {
        self.cur = Some((idx, op));
    }

    fn item(&mut self, v: Option<Val>) {
        self.events += 1;
        if let Some(v) = &v {
            self.seen(v);
        }
        let op = self.cur.map(|c| c.1);
        let exp = match op {
            Some(Op::Next) => {
                if self.lo < self.hi {
                    self.lo += 1;
                    Some(self.expect[self.lo - 1])
                } else {
                    None
                }
            }
            Some(Op::NextBack) => {
                if self.lo < self.hi {
                    self.hi -= 1;
                    Some(self.expect[self.hi])
                } else {
                    None
                }
            }
            Some(Op::Nth(k)) => {
                if k < self.rem() {
                    self.lo += k + 1;
                    Some(self.expect[self.lo - 1])
                } else {
                    self.lo = self.hi;
                    None
                }
            }
            Some(Op::NthBack(k)) => {
                if k < self.rem() {
                    self.hi -= k + 1;
                    Some(self.expect[self.hi])
                } else {
                    self.hi = self.lo;
                    None
                }
            }
            Some(Op::Last) => {
                if self.lo < self.hi {
                    let r = Some(self.expect[self.hi - 1]);
                    self.lo = self.hi;
                    r
                } else {
                    None
                }
            }
            Some(Op::FindNth(k)) => {
                let r = if k < self.rem() {
                    Some(self.expect[self.lo + k])
                } else {
                    None
                };
                self.lo = self.hi;
                r
            }
            Some(Op::RevNth(k)) => {
                let r = if k < self.rem() {
                    Some(self.expect[self.hi - 1 - k])
                } else {
                    None
                };
                self.lo = self.hi;
                r
            }
            Some(Op::Min) | Some(Op::Max) => {
                let rest = &self.expect[self.lo..self.hi];
                let key = |v: &Val| match v {
                    Val::D(d) => (*d, ""),
                    Val::S(s) => (0, *s),
                };
                // Iterator::min returns the first minimum, Iterator::max the last maximum
                let r = if matches!(op, Some(Op::Min)) {
                    rest.iter().copied().min_by(|a, b| key(a).cmp(&key(b)))
                } else {
                    rest.iter().copied().max_by(|a, b| key(a).cmp(&key(b)))
                };
                self.lo = self.hi;
                r
            }
            other => {
                self.err(format!("harness: item() reported for {other:?}"));
                None
            }
        };
        self.note_state();
        self.tline(format!("{:?} -> {}", op, opt_str(&v)));
        if v != exp {
            self.err(format!("returned {}, model {}", opt_str(&v), opt_str(&exp)));
        }
    }

    fn len(&mut self, n: usize) {
        self.events += 1;
        self.tline(format!("len -> {n}"));
        if n != self.rem() {
            let r = self.rem();
            self.err(format!("len() = {n}, model {r}"));
        }
    }

    fn size_hint(&mut self, lo: usize, hi: Option<usize>) {
        self.events += 1;
        self.tline(format!("size_hint -> ({lo}, {hi:?})"));
        let r = self.rem();
        if lo != r || hi != Some(r) {
            self.err(format!("size_hint() = ({lo}, {hi:?}), model ({r}, Some({r}))"));
        }
    }

    fn seq_item(&mut self, v: Val) {
        self.events += 1;
        self.seen(&v);
        if self.seq.len() <= self.expect.len() + 2 {
            self.seq.push(v);
        } else {
            // a runaway iterator (e.g. an enum with holes treated as a 2^32 element range in a build without
            // debug checks) must not spin: unwinding out of the consuming operation ends it, the caller's
            // catch_unwind reports the panic as a violation of the operation
            panic!("runaway iteration: more than {} items from a sequence of {}", self.seq.len(), self.expect.len());
        }
    }

    fn seq_end(&mut self) {
        self.events += 1;
        let op = self.cur.map(|c| c.1);
        let mut exp: Vec<Val> = self.expect[self.lo..self.hi].to_vec();
        match op {
            Some(Op::RFold) | Some(Op::RevCollect) => exp.reverse(),
            Some(Op::TryFoldStop(k)) => exp.truncate(k.max(1)),
            Some(Op::TryRFoldStop(k)) => {
                exp.reverse();
                exp.truncate(k.max(1));
            }
            Some(Op::StepBy(st)) => exp = exp.into_iter().step_by(st.max(1)).collect(),
            Some(Op::SkipTake(a, b)) => exp = exp.into_iter().skip(a).take(b).collect(),
            _ => {}
        }
        self.lo = self.hi;
        self.note_state();
        let got = std::mem::take(&mut self.seq);
        let render = |v: &[Val]| v.iter().map(val_str).collect::<Vec<_>>().join(",");
        self.tline(format!("{:?} -> [{}]", op, render(&got)));
        if got != exp {
            self.err(format!("visited [{}], model [{}]", render(&got), render(&exp)));
        }
    }

    fn count(&mut self, n: usize) {
        self.events += 1;
        self.tline(format!("count -> {n}"));
        let r = self.rem();
        self.lo = self.hi;
        if n != r {
            self.err(format!("count() = {n}, model {r}"));
        }
    }

    fn pair(&mut self, _v: D, _s: &'static str) {
        self.err("harness: pair() reported to a history sink".to_string());
    }

    fn opt_index(&mut self, i: Option<usize>) {
        self.events += 1;
        let op = self.cur.map(|c| c.1);
        let rem = self.rem();
        let exp = match op {
            Some(Op::Position(k)) => {
                if k < rem {
                    Some(k)
                } else {
                    None
                }
            }
            Some(Op::RPosition(k)) => {
                if k < rem {
                    Some(rem - 1 - k)
                } else {
                    None
                }
            }
            _ => None,
        };
        self.lo = self.hi;
        self.tline(format!("{:?} -> {:?}", op, i));
        if i != exp {
            self.err(format!("returned {i:?}, model {exp:?}"));
        }
    }
}

/// simulate the effect of one op on the remaining length (for choosing `k` values)
fn rem_after(rem: usize, op: Op) -> usize {
    match op {
        Op::Next | Op::NextBack => rem.saturating_sub(1),
        Op::Nth(k) | Op::NthBack(k) => {
            if k < rem {
                rem - k - 1
            } else {
                0
            }
        }
        _ => rem,
    }
}

fn pick_k(rng: &mut Rng, rem: usize) -> usize {
    match rng.below(8) {
        0 => 0,
        1 => 1,
        2 => 2,
        3 => rem.saturating_sub(1),
        4 => rem,
        5 => rem + 1,
        6 => usize::MAX,
        _ => rng.below(rem as u64 + 2) as usize,
    }
}

const CONSUMING: [Op; 6] = [
    Op::Fold,
    Op::RFold,
    Op::Last,
    Op::Count,
    Op::Collect,
    Op::RevCollect,
];

/// a consuming operation, parameters chosen relative to the remaining length
pub fn consuming(rng: &mut Rng, rem: usize, ord: bool) -> Op {
    match rng.below(if ord { 16 } else { 14 }) {
        0 => Op::Fold,
        1 => Op::RFold,
        2 => Op::Last,
        3 => Op::Count,
        4 => Op::Collect,
        5 => Op::RevCollect,
        6 => Op::TryFoldStop(pick_k(rng, rem).min(rem + 2)),
        7 => Op::TryRFoldStop(pick_k(rng, rem).min(rem + 2)),
        8 => Op::FindNth(pick_k(rng, rem).min(rem + 2)),
        9 => Op::Position(pick_k(rng, rem).min(rem + 2)),
        10 => Op::RPosition(pick_k(rng, rem).min(rem + 2)),
        11 => Op::StepBy(1 + rng.below(3) as usize),
        12 => Op::SkipTake(pick_k(rng, rem).min(rem + 2), pick_k(rng, rem).min(rem + 2)),
        13 => Op::RevNth(pick_k(rng, rem).min(rem + 2)),
        14 => Op::Min,
        _ => Op::Max,
    }
}

/// one random history of at most `max_ops` operations over a sequence of length `n`
pub fn random_history(rng: &mut Rng, n: usize, max_ops: usize) -> Vec<Op> {
    random_history_ord(rng, n, max_ops, false)
}

pub fn random_history_ord(rng: &mut Rng, n: usize, max_ops: usize, ord: bool) -> Vec<Op> {
    let len = 1 + rng.below(max_ops as u64) as usize;
    let mut rem = n;
    let mut ops = Vec::with_capacity(len + 1);
    for _ in 0..len {
        let op = match rng.below(10) {
            0 | 1 => Op::Next,
            2 | 3 => Op::NextBack,
            4 | 5 => Op::Nth(pick_k(rng, rem)),
            6 | 7 => Op::NthBack(pick_k(rng, rem)),
            8 => Op::Len,
            _ => Op::SizeHint,
        };
        rem = rem_after(rem, op);
        ops.push(op);
    }
    if rng.chance(2, 3) {
        ops.push(consuming(rng, rem, ord));
    }
    ops
}

/// all 2^n front/back interleavings to exhaustion, plus a fused tail
pub fn exhaustive_interleavings(n: usize) -> Vec<Vec<Op>> {
    let mut out = Vec::new();
    for mask in 0u32..(1u32 << n) {
        let mut ops = Vec::with_capacity(2 * n + 4);
        for i in 0..n {
            ops.push(if (mask >> i) & 1 == 0 {
                Op::Next
            } else {
                Op::NextBack
            });
            if mask & 1 == 1 {
                ops.push(if i % 2 == 0 { Op::Len } else { Op::SizeHint });
            }
        }
        ops.push(Op::Next);
        ops.push(Op::NextBack);
        ops.push(Op::Len);
        ops.push(Op::Next);
        out.push(ops);
    }
    out
}

fn all_consuming(rem: usize, ord: bool) -> Vec<Op> {
    let mut v = CONSUMING.to_vec();
    v.extend([
        Op::TryFoldStop(1),
        Op::TryFoldStop(rem),
        Op::TryRFoldStop(2),
        Op::FindNth(0),
        Op::FindNth(rem.saturating_sub(1)),
        Op::FindNth(rem),
        Op::Position(rem.saturating_sub(1)),
        Op::Position(rem),
        Op::RPosition(0),
        Op::RPosition(rem),
        Op::StepBy(2),
        Op::SkipTake(1, rem),
        Op::RevNth(0),
        Op::RevNth(rem),
    ]);
    if ord {
        v.extend([Op::Min, Op::Max]);
    }
    v
}

/// fixed histories every sequence gets: plain consuming ops, exhaustion + fused tail
pub fn fixed_histories(n: usize) -> Vec<Vec<Op>> {
    fixed_histories_ord(n, false)
}

pub fn fixed_histories_ord(n: usize, ord: bool) -> Vec<Vec<Op>> {
    fixed_histories_level(n, ord, 1)
}

/// level 0 (interpreters): every consuming operation once, spread over the three situations (fresh,
/// cursors crossed, one step from each end) instead of in each of them
pub fn fixed_histories_level(n: usize, ord: bool, level: u32) -> Vec<Vec<Op>> {
    if level == 0 {
        let mut out: Vec<Vec<Op>> = Vec::new();
        for (k, c) in all_consuming(n, ord).into_iter().enumerate() {
            match k % 3 {
                0 => out.push(vec![c]),
                1 => {
                    let mut h = Vec::new();
                    for i in 0..n {
                        h.push(if i % 2 == 0 { Op::Next } else { Op::NextBack });
                    }
                    h.push(match c {
                        Op::TryFoldStop(_) => Op::TryFoldStop(1),
                        Op::FindNth(_) => Op::FindNth(0),
                        Op::Position(_) => Op::Position(0),
                        Op::RPosition(_) => Op::RPosition(0),
                        Op::RevNth(_) => Op::RevNth(0),
                        other => other,
                    });
                    out.push(h);
                }
                _ => out.push(if n >= 3 { vec![Op::Next, Op::NextBack, c] } else { vec![c] }),
            }
        }
        let mut f = vec![Op::Next; n];
        f.extend([Op::Next, Op::NextBack, Op::Len, Op::Nth(0), Op::SizeHint]);
        out.push(f);
        out.push(vec![Op::Nth(n), Op::Next, Op::NextBack, Op::Len]);
        out.push(vec![Op::NthBack(usize::MAX), Op::NextBack, Op::Len]);
        out.push(vec![Op::Nth(usize::MAX), Op::Next, Op::Len]);
        if n >= 1 {
            out.push(vec![Op::NthBack(n - 1), Op::Len, Op::NextBack]);
        }
        return out;
    }
    let mut out: Vec<Vec<Op>> = all_consuming(n, ord).into_iter().map(|c| vec![c]).collect();
    // every consuming operation after the iterator was emptied from both ends (cursors crossed),
    // and after one step from each end
    for c in all_consuming(0, ord) {
        let mut h = Vec::new();
        for i in 0..n {
            h.push(if i % 2 == 0 { Op::Next } else { Op::NextBack });
        }
        h.push(c);
        out.push(h);
    }
    if n >= 3 {
        for c in all_consuming(n - 2, ord) {
            out.push(vec![Op::Next, Op::NextBack, c]);
        }
    }
    out.push(vec![Op::Len, Op::SizeHint]);
    // exhaust from the front, then 3 further calls
    let mut f = vec![Op::Next; n];
    f.extend([Op::Next, Op::NextBack, Op::Len, Op::Nth(0), Op::SizeHint]);
    out.push(f);
    let mut b = vec![Op::NextBack; n];
    b.extend([Op::NextBack, Op::Next, Op::Len, Op::NthBack(0), Op::Last]);
    out.push(b);
    out.push(vec![Op::Nth(n), Op::Next, Op::NextBack, Op::Len]);
    out.push(vec![Op::NthBack(n), Op::Next, Op::NextBack, Op::Len]);
    out.push(vec![Op::Nth(usize::MAX), Op::Next, Op::Len]);
    out.push(vec![Op::NthBack(usize::MAX), Op::NextBack, Op::Len]);
    if n >= 1 {
        out.push(vec![Op::Nth(n - 1), Op::Len, Op::Next]);
        out.push(vec![Op::NthBack(n - 1), Op::Len, Op::NextBack]);
    }
    if n >= 2 {
        // meet in the middle
        let mut m = Vec::new();
        for i in 0..n {
            m.push(if i % 2 == 0 { Op::Next } else { Op::NextBack });
            m.push(Op::Len);
        }
        m.extend([Op::Next, Op::NextBack]);
        out.push(m);
        out.push(vec![Op::Nth(n / 2), Op::NthBack(n / 2), Op::Len, Op::Collect]);
        out.push(vec![Op::Next, Op::NextBack, Op::RevCollect]);
        out.push(vec![Op::NextBack, Op::Fold]);
        out.push(vec![Op::Next, Op::RFold]);
        out.push(vec![Op::Next, Op::Last]);
        out.push(vec![Op::NextBack, Op::Count]);
    }
    out
}

/// is the history "non-trivial" for evidence: >= 3 ops, mixing both ends or using nth*
pub fn nontrivial(ops: &[Op]) -> bool {
    if ops.len() < 3 {
        return false;
    }
    let front = ops.iter().any(|o| matches!(o, Op::Next | Op::Nth(_)));
    let back = ops.iter().any(|o| matches!(o, Op::NextBack | Op::NthBack(_)));
    let nth = ops.iter().any(|o| matches!(o, Op::Nth(_) | Op::NthBack(_)));
    (front && back) || nth
}
