//! Online checkers: drive the derived items of one case through its VTable and compare
//! every observation with the reference model.

use crate::hist::{
    exhaustive_interleavings, fixed_histories, nontrivial, random_history, val_str, HistSink,
};
use crate::model::Model;
use crate::util::{jstr, show, Rng, Transcript};
use monitor_core::{IterFn, Op, Sink, VTable, Val, D};
use std::cell::RefCell;
use std::collections::{BTreeMap, BTreeSet, HashSet};
use std::panic::{catch_unwind, AssertUnwindSafe};

thread_local! {
    pub static LAST_PANIC: RefCell<String> = RefCell::new(String::new());
}

pub fn guard<T>(f: impl FnOnce() -> T) -> Result<T, String> {
    match catch_unwind(AssertUnwindSafe(f)) {
        Ok(v) => Ok(v),
        Err(_) => Err(LAST_PANIC.with(|p| p.borrow().clone())),
    }
}

#[derive(Clone, Debug)]
pub struct Budget {
    pub name: String,
    pub exhaustive_bits: u32,
    pub rand_probes: usize,
    pub max_variant_probes: usize,
    pub str_names: usize,
    pub str_cap: usize,
    pub interleave_n: usize,
    pub rand_hist: usize,
    pub pairs_all_n: usize,
    pub pairs_sample: usize,
    pub range_hist: usize,
    pub per_variant_cap: usize,
    /// C04 storm: string comparisons' worth of random non-name probes per case (0 = off)
    pub storm_work: usize,
    /// the same for enums with at least 200 names (a false accept rate of p per name needs about 1 / (p n) probes)
    pub storm_big_work: usize,
}

impl Budget {
    pub fn preset(name: &str) -> Option<Budget> {
        let b = match name {
            "quick" => Budget {
                name: name.into(),
                exhaustive_bits: 16,
                rand_probes: 64,
                max_variant_probes: 70000,
                str_names: 24,
                str_cap: 1500,
                interleave_n: 8,
                rand_hist: 200,
                pairs_all_n: 40,
                pairs_sample: 400,
                range_hist: 3,
                per_variant_cap: 70000,
                storm_work: 400_000,
                storm_big_work: 4_000_000,
            },
            "thorough" => Budget {
                name: name.into(),
                exhaustive_bits: 16,
                rand_probes: 512,
                max_variant_probes: 70000,
                str_names: 96,
                str_cap: 12000,
                interleave_n: 10,
                rand_hist: 2000,
                pairs_all_n: 64,
                pairs_sample: 3000,
                range_hist: 8,
                per_variant_cap: 70000,
                storm_work: 4_000_000,
                storm_big_work: 100_000_000,
            },
            // interpreters / valgrind: same code paths, far fewer events
            "miri-quick" => Budget {
                name: name.into(),
                exhaustive_bits: 0,
                rand_probes: 6,
                max_variant_probes: 24,
                str_names: 3,
                str_cap: 40,
                interleave_n: 3,
                rand_hist: 6,
                pairs_all_n: 5,
                pairs_sample: 16,
                range_hist: 1,
                per_variant_cap: 24,
                storm_work: 0,
                storm_big_work: 0,
            },
            "miri-thorough" => Budget {
                name: name.into(),
                exhaustive_bits: 0,
                rand_probes: 16,
                max_variant_probes: 64,
                str_names: 6,
                str_cap: 120,
                interleave_n: 4,
                rand_hist: 24,
                pairs_all_n: 8,
                pairs_sample: 48,
                range_hist: 2,
                per_variant_cap: 64,
                storm_work: 0,
                storm_big_work: 0,
            },
            _ => return None,
        };
        Some(b)
    }

    pub fn set(&mut self, key: &str, val: &str) -> Result<(), String> {
        let v: usize = val.parse().map_err(|_| format!("bad value {val}"))?;
        match key {
            "exhaustive_bits" => self.exhaustive_bits = v as u32,
            "rand_probes" => self.rand_probes = v,
            "max_variant_probes" => self.max_variant_probes = v,
            "str_names" => self.str_names = v,
            "str_cap" => self.str_cap = v,
            "interleave_n" => self.interleave_n = v,
            "rand_hist" => self.rand_hist = v,
            "pairs_all_n" => self.pairs_all_n = v,
            "pairs_sample" => self.pairs_sample = v,
            "range_hist" => self.range_hist = v,
            "per_variant_cap" => self.per_variant_cap = v,
            "storm_work" => self.storm_work = v,
            "storm_big_work" => self.storm_big_work = v,
            _ => return Err(format!("unknown budget key {key}")),
        }
        Ok(())
    }
}

#[derive(Default)]
pub struct Report {
    pub case: u32,
    pub prop: String,
    pub events: u64,
    pub items: BTreeMap<&'static str, u64>,
    pub classes: BTreeMap<String, u64>,
    pub viol: Vec<(String, String)>,
    pub viol_count: u64,
    pub nonmember: Vec<String>,
    pub nonmember_count: u64,
    pub harness: Vec<String>,
    pub digests: BTreeMap<String, (u64, u64)>,
    pub states: u64,
    pub histories: u64,
    pub nontrivial: u64,
    pub samples: Vec<String>,
    pub wall_ms: u64,
}

impl Report {
    pub fn new(case: u32, prop: &str) -> Self {
        Report {
            case,
            prop: prop.to_string(),
            ..Default::default()
        }
    }

    pub fn ev(&mut self, item: &'static str, n: u64) {
        self.events += n;
        *self.items.entry(item).or_insert(0) += n;
    }

    pub fn class(&mut self, c: &str) {
        *self.classes.entry(c.to_string()).or_insert(0) += 1;
    }

    pub fn violation(&mut self, item: &str, detail: String) {
        self.viol_count += 1;
        if self.viol.len() < 6 {
            self.viol.push((item.to_string(), detail));
        }
    }

    pub fn nonmember(&mut self, detail: String) {
        self.nonmember_count += 1;
        if self.nonmember.len() < 6 {
            self.nonmember.push(detail);
        }
    }

    pub fn harness(&mut self, detail: String) {
        if self.harness.len() < 6 {
            self.harness.push(detail);
        }
    }

    pub fn sample(&mut self, s: String) {
        if self.samples.len() < 4 {
            self.samples.push(s);
        }
    }

    pub fn to_json(&self) -> String {
        let mut s = format!(
            "{{\"case\":{},\"prop\":{},\"wall_ms\":{},\"events\":{},\"viol_count\":{},\"nonmember_count\":{},\"states\":{},\"histories\":{},\"nontrivial\":{}",
            self.case,
            jstr(&self.prop),
            self.wall_ms,
            self.events,
            self.viol_count,
            self.nonmember_count,
            self.states,
            self.histories,
            self.nontrivial
        );
        s.push_str(",\"items\":{");
        s.push_str(
            &self
                .items
                .iter()
                .map(|(k, v)| format!("{}:{}", jstr(k), v))
                .collect::<Vec<_>>()
                .join(","),
        );
        s.push_str("},\"classes\":{");
        s.push_str(
            &self
                .classes
                .iter()
                .map(|(k, v)| format!("{}:{}", jstr(k), v))
                .collect::<Vec<_>>()
                .join(","),
        );
        s.push_str("},\"viol\":[");
        s.push_str(
            &self
                .viol
                .iter()
                .map(|(i, d)| format!("{{\"item\":{},\"detail\":{}}}", jstr(i), jstr(d)))
                .collect::<Vec<_>>()
                .join(","),
        );
        s.push_str("],\"nonmember\":[");
        s.push_str(
            &self
                .nonmember
                .iter()
                .map(|d| jstr(d))
                .collect::<Vec<_>>()
                .join(","),
        );
        s.push_str("],\"harness\":[");
        s.push_str(
            &self
                .harness
                .iter()
                .map(|d| jstr(d))
                .collect::<Vec<_>>()
                .join(","),
        );
        s.push_str("],\"digests\":{");
        s.push_str(
            &self
                .digests
                .iter()
                .map(|(k, (d, l))| format!("{}:[\"{:016x}\",{}]", jstr(k), d, l))
                .collect::<Vec<_>>()
                .join(","),
        );
        s.push_str("},\"samples\":[");
        s.push_str(
            &self
                .samples
                .iter()
                .map(|d| jstr(d))
                .collect::<Vec<_>>()
                .join(","),
        );
        s.push_str("]}");
        s
    }
}

fn ostr(v: &Option<D>) -> String {
    match v {
        None => "None".into(),
        Some(d) => format!("Some({d})"),
    }
}

/// ground truth check: the generator's model must agree with the compiler (`v as repr`)
pub fn self_check(vt: &VTable, rep: &mut Report) -> bool {
    let mut ok = true;
    for i in 0..vt.n {
        match guard(|| (vt.disc)(i)) {
            Ok(d) if d == vt.model[i].0 => {}
            Ok(d) => {
                ok = false;
                rep.harness(format!(
                    "generator model says variant #{i} ({}) = {}, compiler says {d}",
                    vt.idents[i], vt.model[i].0
                ));
            }
            Err(p) => {
                ok = false;
                rep.harness(format!("disc({i}) panicked: {p}"));
            }
        }
    }
    ok
}

// ------------------------------------------------------------------------------------
// probes

fn boundary_probes(m: &Model) -> BTreeSet<u128> {
    let mut out = BTreeSet::new();
    let mut add = |d: D| {
        if m.in_repr(d) {
            out.insert(m.pattern(d));
        }
    };
    add(m.rmin);
    add(m.rmin + 1);
    for d in [-2, -1, 0, 1, 2] {
        add(d);
    }
    if let Some(mx) = m.rmax {
        add(mx);
        add(mx - 1);
    }
    for (b, e) in &m.runs {
        for d in [b - 2, b - 1, *b, b + 1, e - 1, *e, e + 1, e + 2] {
            add(d);
        }
    }
    add(m.min() - 1);
    add(m.max() + 1);
    for d in [
        i64::MIN as D - 1,
        i64::MIN as D,
        i64::MIN as D + 1,
        i64::MAX as D - 1,
        i64::MAX as D,
        i64::MAX as D + 1,
        i32::MIN as D,
        i32::MAX as D,
        u32::MAX as D,
        u32::MAX as D + 1,
        256,
        255,
        -129,
        -128,
        127,
        128,
        65535,
        65536,
        -32768,
        -32769,
        32767,
        32768,
    ] {
        add(d);
    }
    // truncation aliases: values which equal a member (or a run boundary) modulo a narrower width
    for w in [8u32, 16, 32, 64] {
        if w >= m.rbits {
            continue;
        }
        let step = 1i128 << w;
        let mut marks: Vec<D> = vec![m.min(), m.max()];
        for (b, e) in m.runs.iter().take(6) {
            marks.push(*b);
            marks.push(*e);
        }
        for d in marks {
            for k in [-2i128, -1, 1, 2] {
                if let Some(x) = step.checked_mul(k).and_then(|s| d.checked_add(s)) {
                    add(x);
                    add(x + 1);
                    add(x - 1);
                }
            }
        }
    }
    if m.rbits == 128 {
        add(D::MAX);
        add(D::MAX - 1);
        add(D::MIN);
        add(D::MIN + 1);
        add(1i128 << 64);
        add(-(1i128 << 64));
        add((1i128 << 64) + m.min());
        add(m.max() - (1i128 << 64));
    }
    if m.rbits == 128 && !m.rsigned {
        // patterns above i128::MAX exist only for u128
        out.insert(u128::MAX);
        out.insert(u128::MAX - 1);
        out.insert(1u128 << 127);
        out.insert((1u128 << 127) + 1);
    }
    out
}

fn c01_probes(m: &Model, b: &Budget, rng: &mut Rng) -> Vec<u128> {
    if m.rbits <= b.exhaustive_bits {
        return (0..(1u128 << m.rbits)).collect();
    }
    let mut set = boundary_probes(m);
    // variants themselves
    if m.n() <= b.max_variant_probes {
        for x in &m.sorted {
            set.insert(m.pattern(x.0));
        }
    } else {
        for _ in 0..b.max_variant_probes {
            let x = &m.sorted[rng.below(m.n() as u64) as usize];
            set.insert(m.pattern(x.0));
        }
    }
    // inside holes
    let holes: Vec<(D, D)> = m
        .runs
        .windows(2)
        .map(|w| (w[0].1 + 1, w[1].0 - 1))
        .collect();
    if !holes.is_empty() {
        for _ in 0..b.rand_probes {
            let (lo, hi) = holes[rng.below(holes.len() as u64) as usize];
            let span = (hi - lo + 1) as u128;
            let d = lo + (rng.u128() % span) as D;
            set.insert(m.pattern(d));
        }
    }
    // anywhere
    for _ in 0..b.rand_probes {
        let p = rng.u128();
        // keep patterns canonical: value -> pattern
        match m.value(p) {
            Some(d) => set.insert(m.pattern(d)),
            None => set.insert(p),
        };
    }
    set.into_iter().collect()
}

// ------------------------------------------------------------------------------------
// C01

pub fn c01(vt: &VTable, m: &Model, b: &Budget, rng: &mut Rng, rep: &mut Report) {
    let probes = c01_probes(m, b, rng);
    let fns: [(&'static str, Option<fn(u128) -> Option<D>>); 2] =
        [("try_from", vt.try_from_fn), ("TryFrom", vt.try_from_trait)];
    for (item, f) in fns {
        let f = match f {
            Some(f) => f,
            None => continue,
        };
        for p in &probes {
            let val = m.value(*p);
            let exp = val.filter(|d| m.contains(*d));
            let shown = val.map_or_else(|| format!("{p}"), |d| format!("{d}"));
            rep.ev(item, 1);
            rep.class(m.class(val));
            match guard(|| f(*p)) {
                Ok(got) => {
                    if let Some(g) = got {
                        if !m.contains(g) {
                            rep.nonmember(format!(
                                "{item}({shown}) returned a value with discriminant {g}, not a declared variant"
                            ));
                        }
                    }
                    if got != exp {
                        rep.violation(
                            item,
                            format!("{item}({shown}) = {}, model {}", ostr(&got), ostr(&exp)),
                        );
                    }
                }
                Err(pm) => rep.violation(item, format!("{item}({shown}) panicked: {pm}")),
            }
        }
    }
    let intos: [(&'static str, Option<fn(usize) -> D>); 2] =
        [("into", vt.into_fn), ("Into", vt.into_trait)];
    for (item, f) in intos {
        let f = match f {
            Some(f) => f,
            None => continue,
        };
        for i in 0..vt.n.min(b.per_variant_cap) {
            rep.ev(item, 1);
            let exp = vt.model[i].0;
            match guard(|| f(i)) {
                Ok(got) if got == exp => {}
                Ok(got) => rep.violation(
                    item,
                    format!("{item}({}) = {got}, discriminant is {exp}", vt.idents[i]),
                ),
                Err(pm) => rep.violation(item, format!("{item}({}) panicked: {pm}", vt.idents[i])),
            }
        }
    }
    if probes.len() <= 12 || rep.samples.is_empty() {
        rep.sample(format!(
            "probes={} runs={:?} first={:?}",
            probes.len(),
            &m.runs[..m.runs.len().min(4)],
            probes
                .iter()
                .take(6)
                .map(|p| m.value(*p))
                .collect::<Vec<_>>()
        ));
    }
}

// ------------------------------------------------------------------------------------
// C03

fn fmt_to_string(f: monitor_core::FmtFn, i: usize) -> Result<String, String> {
    let mut s = String::new();
    match guard(|| f(i, &mut s)) {
        Ok(Ok(())) => Ok(s),
        Ok(Err(_)) => Err("fmt returned Err".to_string()),
        Err(p) => Err(format!("panicked: {p}")),
    }
}

pub fn c03(vt: &VTable, m: &Model, b: &Budget, rng: &mut Rng, rep: &mut Report) {
    let idxs = variant_sample(m, b, rng);
    for &si in &idxs {
        let (d, name, i) = m.sorted[si];
        if let Some(f) = vt.as_str {
            rep.ev("as_str", 1);
            match guard(|| f(i)) {
                Ok(s) if s == name => {}
                Ok(s) => rep.violation(
                    "as_str",
                    format!("as_str({}={d}) = {}, name is {}", vt.idents[i], show(s), show(name)),
                ),
                Err(p) => rep.violation(
                    "as_str",
                    format!("as_str({}={d}) panicked: {p}", vt.idents[i]),
                ),
            }
        }
        if let Some(f) = vt.into_str {
            rep.ev("IntoStr", 1);
            match guard(|| f(i)) {
                Ok(s) if s == name => {}
                Ok(s) => rep.violation(
                    "IntoStr",
                    format!(
                        "<&str>::from({}={d}) = {}, name is {}",
                        vt.idents[i],
                        show(s),
                        show(name)
                    ),
                ),
                Err(p) => rep.violation(
                    "IntoStr",
                    format!("<&str>::from({}={d}) panicked: {p}", vt.idents[i]),
                ),
            }
        }
        for (item, f) in [("Display", vt.display), ("Debug", vt.debug)] {
            if let Some(f) = f {
                rep.ev(item, 1);
                match fmt_to_string(f, i) {
                    Ok(s) if s == name => {}
                    Ok(s) => rep.violation(
                        item,
                        format!(
                            "{item} of {}={d} rendered {}, name is {}",
                            vt.idents[i],
                            show(&s),
                            show(name)
                        ),
                    ),
                    Err(p) => {
                        rep.violation(item, format!("{item} of {}={d} {p}", vt.idents[i]))
                    }
                }
            }
        }
    }
    rep.sample(format!(
        "variants checked={} e.g. {:?}",
        idxs.len(),
        idxs.iter()
            .take(4)
            .map(|&si| (m.sorted[si].0, m.sorted[si].1))
            .collect::<Vec<_>>()
    ));
}

/// sorted-index sample of the variants (all, unless the budget caps it; always the ends
/// and both sides of every run boundary)
fn variant_sample(m: &Model, b: &Budget, rng: &mut Rng) -> Vec<usize> {
    let n = m.n();
    if n <= b.per_variant_cap {
        return (0..n).collect();
    }
    let mut set = BTreeSet::new();
    set.insert(0);
    set.insert(n - 1);
    let mut budget = b.per_variant_cap;
    for (bd, ed) in &m.runs {
        if budget < 2 {
            break;
        }
        set.insert(m.pos(*bd).unwrap());
        set.insert(m.pos(*ed).unwrap());
        budget -= 2;
    }
    while set.len() < b.per_variant_cap.max(2) {
        set.insert(rng.below(n as u64) as usize);
    }
    set.into_iter().collect()
}

// ------------------------------------------------------------------------------------
// C04

fn char_edits(name: &str, out: &mut Vec<String>) {
    let chars: Vec<char> = name.chars().collect();
    let n = chars.len();
    let build = |v: &[char]| v.iter().collect::<String>();
    for i in 0..n {
        // delete
        let mut v = chars.clone();
        v.remove(i);
        out.push(build(&v));
        // substitute
        let mut v = chars.clone();
        v[i] = if v[i] == 'x' { 'y' } else { 'x' };
        out.push(build(&v));
        // case flip
        let c = chars[i];
        let f: Vec<char> = if c.is_lowercase() {
            c.to_uppercase().collect()
        } else {
            c.to_lowercase().collect()
        };
        if f != vec![c] {
            let mut v = chars.clone();
            v.splice(i..=i, f);
            out.push(build(&v));
        }
    }
    for i in 0..=n {
        for ins in ['x', ' ', '\0', '_'] {
            let mut v = chars.clone();
            v.insert(i, ins);
            out.push(build(&v));
        }
        // prefix
        out.push(build(&chars[..i]));
        out.push(build(&chars[i..]));
    }
    // permutations of the same characters (a digest which ignores order), round 5 / V09b
    for i in 0..n.saturating_sub(1) {
        if chars[i] != chars[i + 1] {
            let mut v = chars.clone();
            v.swap(i, i + 1);
            out.push(build(&v));
        }
    }
    if n >= 2 {
        let mut v = chars.clone();
        v.reverse();
        out.push(build(&v));
        let mut v = chars.clone();
        v.rotate_left(1);
        out.push(build(&v));
        let mut v = chars.clone();
        v.swap(0, n - 1);
        out.push(build(&v));
    }
    // same length, same first and last character, different middle (a comparison which samples the string)
    if n >= 3 {
        let mut v = chars.clone();
        for c in v[1..n - 1].iter_mut() {
            *c = if *c == 'q' { 'k' } else { 'q' };
        }
        out.push(build(&v));
        let mut v = chars.clone();
        v[n / 2] = if v[n / 2] == '0' { '1' } else { '0' };
        out.push(build(&v));
    }
    out.push(format!("{name}{name}"));
    out.push(name.to_uppercase());
    out.push(name.to_lowercase());
    out.push(format!("{name}\n"));
    out.push(format!("\t{name}"));
}

pub fn c04_strings(vt: &VTable, m: &Model, b: &Budget, rng: &mut Rng) -> Vec<String> {
    let mut set: BTreeSet<String> = BTreeSet::new();
    let n = m.n();
    // all names (capped), identifiers of renamed variants
    let name_cap = b.per_variant_cap.max(4);
    if n <= name_cap {
        for x in &m.sorted {
            set.insert(x.1.to_string());
        }
    } else {
        for _ in 0..name_cap {
            set.insert(m.sorted[rng.below(n as u64) as usize].1.to_string());
        }
    }
    for (i, id) in vt.idents.iter().enumerate().take(name_cap) {
        if *id != vt.model[i].1 {
            set.insert(id.to_string());
        }
    }
    // neighbours of a sample of names
    let mut pick: BTreeSet<usize> = BTreeSet::new();
    pick.insert(0);
    pick.insert(n - 1);
    while pick.len() < b.str_names.min(n) {
        pick.insert(rng.below(n as u64) as usize);
    }
    let mut edits = Vec::new();
    for si in pick {
        let name = m.sorted[si].1;
        if name.chars().count() <= 24 {
            char_edits(name, &mut edits);
        } else {
            // long names: a few edits only
            let chars: Vec<char> = name.chars().collect();
            edits.push(chars[1..].iter().collect());
            edits.push(chars[..chars.len() - 1].iter().collect());
            edits.push(format!("{name} "));
            edits.push(format!(" {name}"));
            let mut v = chars.clone();
            let k = rng.below(v.len() as u64) as usize;
            v[k] = if v[k] == 'x' { 'y' } else { 'x' };
            edits.push(v.iter().collect());
        }
    }
    // cross-overs of two names: head of one, tail of another (a comparison of a prefix / suffix / length only)
    if n >= 2 {
        for _ in 0..(b.str_names.max(2) * 2) {
            let a: Vec<char> = m.sorted[rng.below(n as u64) as usize].1.chars().collect();
            let c: Vec<char> = m.sorted[rng.below(n as u64) as usize].1.chars().collect();
            if a.is_empty() || c.is_empty() {
                continue;
            }
            let k = 1 + rng.below(a.len() as u64) as usize;
            let tail = c.len().saturating_sub(a.len().saturating_sub(k)).min(c.len());
            let mut v: Vec<char> = a[..k.min(a.len())].to_vec();
            v.extend_from_slice(&c[tail..]);
            edits.push(v.iter().collect());
        }
    }
    for s in ["", " ", "\0", "A", "a", "_", "0", "None", "Some", "E", "é", "{}", "\"", "\\"] {
        set.insert(s.to_string());
    }
    for _ in 0..16 {
        let len = 1 + rng.below(6) as usize;
        let s: String = (0..len)
            .map(|_| (b'A' + rng.below(58) as u8) as char)
            .collect();
        set.insert(s);
    }
    // cap the edits by sampling
    let room = b.str_cap.saturating_sub(set.len());
    if edits.len() > room {
        for _ in 0..room {
            let k = rng.below(edits.len() as u64) as usize;
            set.insert(edits[k].clone());
        }
    } else {
        set.extend(edits);
    }
    set.into_iter().collect()
}

pub fn c04(vt: &VTable, m: &Model, b: &Budget, rng: &mut Rng, rep: &mut Report) {
    if vt.from_str_fn.is_none() && vt.from_str_trait.is_none() {
        return;
    }
    let strings = c04_strings(vt, m, b, rng);
    let mut hits = 0u64;
    for s in &strings {
        let cands: Vec<D> = m
            .sorted
            .iter()
            .filter(|x| x.1 == s.as_str())
            .map(|x| x.0)
            .collect();
        if !cands.is_empty() {
            hits += 1;
            rep.class("is_name");
        } else {
            rep.class("not_name");
        }
        let mut results: Vec<(&'static str, Option<D>)> = Vec::new();
        for (item, f) in [("from_str", vt.from_str_fn), ("FromStr", vt.from_str_trait)] {
            let f = match f {
                Some(f) => f,
                None => continue,
            };
            rep.ev(item, 1);
            match guard(|| f(s.as_str())) {
                Ok(got) => {
                    results.push((item, got));
                    match got {
                        Some(g) => {
                            if !m.contains(g) {
                                rep.nonmember(format!(
                                    "{item}({}) returned a value with discriminant {g}, not a declared variant",
                                    show(s)
                                ));
                                rep.violation(
                                    item,
                                    format!("{item}({}) = Some({g}), not a variant", show(s)),
                                );
                            } else if !cands.contains(&g) {
                                let nm = m.sorted[m.pos(g).unwrap()].1;
                                rep.violation(
                                    item,
                                    format!(
                                        "{item}({}) = Some({g}) whose name is {}",
                                        show(s),
                                        show(nm)
                                    ),
                                );
                            }
                        }
                        None => {
                            if !cands.is_empty() {
                                rep.violation(
                                    item,
                                    format!(
                                        "{item}({}) = None, but it is the name of {:?}",
                                        show(s),
                                        cands
                                    ),
                                );
                            }
                        }
                    }
                }
                Err(p) => rep.violation(item, format!("{item}({}) panicked: {p}", show(s))),
            }
        }
        if results.len() == 2 && results[0].1 != results[1].1 {
            rep.violation(
                "from_str",
                format!(
                    "from_str({0}) = {1} but FromStr::from_str({0}) = {2}",
                    show(s),
                    ostr(&results[0].1),
                    ostr(&results[1].1)
                ),
            );
        }
    }
    rep.sample(format!(
        "strings={} names_hit={} e.g. {:?}",
        strings.len(),
        hits,
        strings.iter().take(6).collect::<Vec<_>>()
    ));
}

/// C04, volume stage: many cheap random strings which are not names; every one must be refused.
/// The structured probes above sit next to the names; this stage gives the monitor a defined reach against
/// *lossy* comparisons (a digest, a sampled comparison) whose false accepts are spread over all strings:
/// a comparison which accepts a fraction p of the non-names is seen with probability 1 - (1 - p)^probes.
pub fn c04_storm(vt: &VTable, m: &Model, b: &Budget, rng: &mut Rng, rep: &mut Report) {
    if b.storm_work == 0 || (vt.from_str_fn.is_none() && vt.from_str_trait.is_none()) {
        return;
    }
    let n = m.n();
    let work = if n >= 200 { b.storm_big_work.max(b.storm_work) } else { b.storm_work };
    let probes = (work / (n + 40)).clamp(64, 2_000_000);
    let names: std::collections::HashSet<&str> = m.sorted.iter().map(|x| x.1).collect();
    const ALPHA: &[u8] = b"ABCDEFGHIJKLMNOPQRSTUVWXYZabcdefghijklmnopqrstuvwxyz0123456789_";
    let mut buf = String::with_capacity(16);
    let mut done = 0u64;
    for _ in 0..probes {
        buf.clear();
        let mut r = rng.next();
        let len = 1 + (r % 10) as usize;
        r /= 10;
        for k in 0..len {
            if k == 8 {
                r = rng.next();
            }
            buf.push(ALPHA[(r % ALPHA.len() as u64) as usize] as char);
            r /= ALPHA.len() as u64;
        }
        if names.contains(buf.as_str()) {
            continue;
        }
        done += 1;
        for (item, f) in [("from_str", vt.from_str_fn), ("FromStr", vt.from_str_trait)] {
            let f = match f {
                Some(f) => f,
                None => continue,
            };
            match guard(|| f(buf.as_str())) {
                Ok(None) => {}
                Ok(Some(g)) => {
                    if !m.contains(g) {
                        rep.nonmember(format!(
                            "{item}({}) returned a value with discriminant {g}, not a declared variant",
                            show(&buf)
                        ));
                    }
                    rep.violation(
                        item,
                        format!("{item}({}) = Some({g}) although it is not the name of any variant", show(&buf)),
                    );
                }
                Err(p) => rep.violation(item, format!("{item}({}) panicked: {p}", show(&buf))),
            }
            if rep.viol_count > 8 {
                return;
            }
        }
    }
    let per = vt.from_str_fn.is_some() as u64 + vt.from_str_trait.is_some() as u64;
    rep.ev("from_str_storm", done * per);
    rep.class("storm_non_names");
}

// ------------------------------------------------------------------------------------
// C05

pub fn c05(vt: &VTable, m: &Model, b: &Budget, rng: &mut Rng, rep: &mut Report) {
    for (item, f, exp) in [("MIN", vt.min, m.min()), ("MAX", vt.max, m.max())] {
        if let Some(f) = f {
            rep.ev(item, 1);
            match guard(f) {
                Ok(g) => {
                    if !m.contains(g) {
                        rep.nonmember(format!("{item} has discriminant {g}, not a declared variant"));
                    }
                    if g != exp {
                        rep.violation(item, format!("{item} = {g}, model {exp}"));
                    }
                }
                Err(p) => rep.violation(item, format!("{item} panicked: {p}")),
            }
        }
    }
    let idxs = variant_sample(m, b, rng);
    for &si in &idxs {
        let (d, _, i) = m.sorted[si];
        let succ = m.sorted.get(si + 1).map(|x| x.0);
        let pred = if si > 0 { Some(m.sorted[si - 1].0) } else { None };
        for (item, f, exp) in [("next", vt.next, succ), ("next_back", vt.next_back, pred)] {
            if let Some(f) = f {
                rep.ev(item, 1);
                match guard(|| f(i)) {
                    Ok(got) => {
                        if let Some(g) = got {
                            if !m.contains(g) {
                                rep.nonmember(format!(
                                    "{item}({}={d}) returned discriminant {g}, not a declared variant",
                                    vt.idents[i]
                                ));
                            }
                        }
                        if got != exp {
                            rep.violation(
                                item,
                                format!(
                                    "{item}({}={d}) = {}, model {}",
                                    vt.idents[i],
                                    ostr(&got),
                                    ostr(&exp)
                                ),
                            );
                        }
                    }
                    Err(p) => rep.violation(
                        item,
                        format!("{item}({}={d}) panicked: {p}", vt.idents[i]),
                    ),
                }
            }
        }
    }
    // walks (bounded by n + 2 steps)
    let n = m.n();
    if n <= b.per_variant_cap {
        if let (Some(minf), Some(next)) = (vt.min, vt.next) {
            walk(vt, m, rep, "next", minf, next, false);
        }
        if let (Some(maxf), Some(prev)) = (vt.max, vt.next_back) {
            walk(vt, m, rep, "next_back", maxf, prev, true);
        }
    }
    rep.class(if m.runs.len() > 1 { "holes" } else { "gapless" });
    if m.rmax == Some(m.max()) {
        rep.class("run_at_type_max");
    }
    if m.rmin == m.min() {
        rep.class("run_at_type_min");
    }
    rep.sample(format!(
        "n={} runs={:?} min={} max={}",
        n,
        &m.runs[..m.runs.len().min(4)],
        m.min(),
        m.max()
    ));
}

fn walk(
    vt: &VTable,
    m: &Model,
    rep: &mut Report,
    item: &'static str,
    start: fn() -> D,
    step: fn(usize) -> Option<D>,
    reverse: bool,
) {
    let n = m.n();
    let mut seen = Vec::with_capacity(n);
    let mut cur = match guard(start) {
        Ok(d) => d,
        Err(_) => return,
    };
    for _ in 0..n + 2 {
        rep.ev(item, 1);
        seen.push(cur);
        let si = match m.pos(cur) {
            Some(si) => si,
            None => break,
        };
        match guard(|| step(m.sorted[si].2)) {
            Ok(Some(d)) => cur = d,
            Ok(None) => break,
            Err(_) => break,
        }
    }
    let mut exp: Vec<D> = m.sorted.iter().map(|x| x.0).collect();
    if reverse {
        exp.reverse();
    }
    if seen != exp {
        let k = seen
            .iter()
            .zip(exp.iter())
            .position(|(a, b)| a != b)
            .unwrap_or(seen.len().min(exp.len()));
        rep.violation(
            item,
            format!(
                "walk by {item} visited {} variants, model {}; first difference at step {k}: got {:?}, model {:?}",
                seen.len(),
                exp.len(),
                seen.get(k),
                exp.get(k)
            ),
        );
    }
    let _ = vt;
}

// ------------------------------------------------------------------------------------
// iterators: C06, C07, C08

pub struct IterCtx<'a> {
    pub rep: &'a mut Report,
    pub states: HashSet<(usize, usize)>,
    pub universe: &'a dyn Fn(D) -> bool,
}

/// run one history against one iterator; `call` invokes the adapter with the ops and sink
pub fn run_one(
    ctx: &mut IterCtx,
    item: &'static str,
    what: &str,
    expect: &[Val],
    ops: &[Op],
    call: &dyn Fn(&[Op], &mut dyn Sink),
    transcript: Option<&mut Transcript>,
) {
    let mut sink = HistSink::new(what, expect, ops);
    sink.universe = Some(ctx.universe);
    sink.states = Some(&mut ctx.states);
    sink.transcript = transcript;
    let r = guard(|| call(ops, &mut sink));
    let events = sink.events.max(1);
    let errs = std::mem::take(&mut sink.errs);
    let nonm = std::mem::take(&mut sink.nonmembers);
    let at = (sink.lo, sink.hi);
    drop(sink);
    ctx.rep.ev(item, events);
    ctx.rep.histories += 1;
    if nontrivial(ops) {
        ctx.rep.nontrivial += 1;
    }
    for e in errs {
        ctx.rep.violation(item, e);
    }
    for e in nonm {
        ctx.rep.nonmember(e);
    }
    if let Err(p) = r {
        ctx.rep.violation(
            item,
            format!("{what}: panicked during history {:?} (model cursor {:?}): {p}", ops, at),
        );
    }
}

fn histories_for(n: usize, b: &Budget, rng: &mut Rng, ord: bool) -> Vec<Vec<Op>> {
    let interp = b.name.starts_with("miri");
    let mut h = crate::hist::fixed_histories_level(n, ord, if interp { 0 } else { 1 });
    if n <= b.interleave_n {
        h.extend(exhaustive_interleavings(n));
    }
    for _ in 0..b.rand_hist {
        h.push(crate::hist::random_history_ord(rng, n, 16, ord));
    }
    h
}

pub fn c06(vt: &VTable, m: &Model, b: &Budget, rng: &mut Rng, rep: &mut Report) {
    let f: IterFn = match vt.iter {
        Some(f) => f,
        None => return,
    };
    let expect: Vec<Val> = m.sorted.iter().map(|x| Val::D(x.0)).collect();
    let universe = |d: D| m.contains(d);
    let hs = histories_for(m.n(), b, rng, false);
    let mut ctx = IterCtx {
        rep,
        states: HashSet::new(),
        universe: &universe,
    };
    for ops in &hs {
        run_one(&mut ctx, "iter", "iter()", &expect, ops, &|o, s| f(o, s), None);
    }
    let st = ctx.states.len() as u64;
    rep.states += st;
    rep.sample(format!(
        "n={} histories={} e.g. {:?}",
        m.n(),
        hs.len(),
        hs.last().map(|h| &h[..h.len().min(8)])
    ));
}

pub fn c08(vt: &VTable, m: &Model, b: &Budget, rng: &mut Rng, rep: &mut Report) {
    let f: IterFn = match vt.names {
        Some(f) => f,
        None => return,
    };
    let expect: Vec<Val> = m.sorted.iter().map(|x| Val::S(x.1)).collect();
    let universe = |_d: D| true;
    let hs = histories_for(m.n(), b, rng, true);
    {
        let mut ctx = IterCtx {
            rep,
            states: HashSet::new(),
            universe: &universe,
        };
        for ops in &hs {
            run_one(&mut ctx, "names", "names()", &expect, ops, &|o, s| f(o, s), None);
        }
        let st = ctx.states.len() as u64;
        rep.states += st;
    }
    if let Some(z) = vt.zip {
        let mut zs = ZipSink::default();
        let r = guard(|| z(&mut zs));
        rep.ev("zip", zs.pairs.len() as u64 + 1);
        if let Err(p) = r {
            rep.violation("zip", format!("iter().zip(names()) panicked: {p}"));
        }
        let exp: Vec<(D, &str)> = m.sorted.iter().map(|x| (x.0, x.1)).collect();
        if zs.pairs != exp {
            let k = zs
                .pairs
                .iter()
                .zip(exp.iter())
                .position(|(a, b)| a != b)
                .unwrap_or(zs.pairs.len().min(exp.len()));
            rep.violation(
                "zip",
                format!(
                    "iter().zip(names()) gave {} pairs, model {}; first difference at {k}: got {:?}, model {:?}",
                    zs.pairs.len(),
                    exp.len(),
                    zs.pairs.get(k),
                    exp.get(k)
                ),
            );
        }
    }
    rep.sample(format!(
        "n={} histories={} names e.g. {:?}",
        m.n(),
        hs.len(),
        m.sorted.iter().take(3).map(|x| x.1).collect::<Vec<_>>()
    ));
}

#[derive(Default)]
pub struct ZipSink {
    pub pairs: Vec<(D, &'static str)>,
}

impl Sink for ZipSink {
    fn op(&mut self, _: usize, _: Op) {}
    fn item(&mut self, _: Option<Val>) {}
    fn len(&mut self, _: usize) {}
    fn size_hint(&mut self, _: usize, _: Option<usize>) {}
    fn seq_item(&mut self, _: Val) {}
    fn seq_end(&mut self) {}
    fn count(&mut self, _: usize) {}
    fn opt_index(&mut self, _: Option<usize>) {}
    fn pair(&mut self, v: D, s: &'static str) {
        if self.pairs.len() < 70000 {
            self.pairs.push((v, s));
        } else {
            panic!("runaway iteration: more than 70000 pairs from iter().zip(names())");
        }
    }
}

/// the (a, b) pairs, as sorted indices
pub fn c07_pairs(m: &Model, b: &Budget, rng: &mut Rng) -> Vec<(usize, usize)> {
    let n = m.n();
    if n <= b.pairs_all_n {
        let mut v = Vec::with_capacity(n * n);
        for a in 0..n {
            for bb in 0..n {
                v.push((a, bb));
            }
        }
        return v;
    }
    let mut set = BTreeSet::new();
    let mut marks: Vec<usize> = vec![0, 1, n / 2, n - 2, n - 1];
    for (bd, ed) in m.runs.iter().take(12) {
        marks.push(m.pos(*bd).unwrap());
        marks.push(m.pos(*ed).unwrap());
    }
    for k in [127usize, 128, 129, 255, 256, 257] {
        if k < n {
            marks.push(k);
        }
    }
    marks.retain(|x| *x < n);
    marks.sort();
    marks.dedup();
    // all boundary pairs first (possibly capped), then random pairs
    'outer: for a in &marks {
        for bb in &marks {
            set.insert((*a, *bb));
            if set.len() >= b.pairs_sample {
                break 'outer;
            }
        }
    }
    let mut guard_iter = 0;
    while set.len() < b.pairs_sample && guard_iter < 10 * b.pairs_sample {
        guard_iter += 1;
        let a = rng.below(n as u64) as usize;
        // bias to short ranges and reversed pairs
        let bb = match rng.below(4) {
            0 => rng.below(n as u64) as usize,
            1 => (a + rng.below(4) as usize).min(n - 1),
            2 => a.saturating_sub(rng.below(4) as usize),
            _ => rng.below(n as u64) as usize,
        };
        set.insert((a, bb));
    }
    set.into_iter().collect()
}

pub fn c07(vt: &VTable, m: &Model, b: &Budget, rng: &mut Rng, rep: &mut Report) {
    let f = match vt.range {
        Some(f) => f,
        None => return,
    };
    let all: Vec<Val> = m.sorted.iter().map(|x| Val::D(x.0)).collect();
    let universe = |d: D| m.contains(d);
    let pairs = c07_pairs(m, b, rng);
    let mut reversed = 0u64;
    let mut distinct = 0u64;
    let mut ctx = IterCtx {
        rep,
        states: HashSet::new(),
        universe: &universe,
    };
    for &(a, bb) in &pairs {
        let expect: &[Val] = if a <= bb { &all[a..=bb] } else { &[] };
        if a > bb {
            reversed += 1;
        }
        if a != bb {
            distinct += 1;
        }
        let (ia, ib) = (m.sorted[a].2, m.sorted[bb].2);
        let what = format!(
            "range({}={}, {}={})",
            vt.idents[ia], m.sorted[a].0, vt.idents[ib], m.sorted[bb].0
        );
        let call = |o: &[Op], s: &mut dyn Sink| f(ia, ib, o, s);
        let basics: [&[Op]; 7] = [
            &[Op::Len, Op::SizeHint, Op::Collect],
            &[Op::RevCollect],
            &[Op::Next, Op::NextBack, Op::Len, Op::Fold],
            &[Op::NthBack(0), Op::Nth(0), Op::Last],
            &[Op::NextBack, Op::RFold],
            &[Op::Nth(1), Op::Count],
            &[Op::Next, Op::TryRFoldStop(2)],
        ];
        let nb = if b.name.starts_with("miri") { 4 } else { basics.len() };
        for (bi, ops) in basics.iter().enumerate() {
            // interpreters: a rotating selection of the fixed histories per pair
            if nb < basics.len() && (bi + a + bb) % basics.len() >= nb {
                continue;
            }
            run_one(&mut ctx, "range", &what, expect, ops, &call, None);
        }
        for _ in 0..b.range_hist {
            let ops = random_history(rng, expect.len(), 10);
            run_one(&mut ctx, "range", &what, expect, &ops, &call, None);
        }
    }
    let st = ctx.states.len() as u64;
    rep.states += st;
    *rep.classes.entry("pairs".into()).or_insert(0) += pairs.len() as u64;
    *rep.classes.entry("pairs_reversed".into()).or_insert(0) += reversed;
    *rep.classes.entry("pairs_distinct".into()).or_insert(0) += distinct;
    rep.sample(format!(
        "n={} pairs={} reversed={} e.g. {:?}",
        m.n(),
        pairs.len(),
        reversed,
        pairs
            .iter()
            .take(5)
            .map(|(a, b)| (m.sorted[*a].0, m.sorted[*b].0))
            .collect::<Vec<_>>()
    ));
}

// ------------------------------------------------------------------------------------
// relational transcripts (C09, C16, C18): model-space observations under a script which
// depends only on the value->name map, the probe domain and the seed

pub fn transcripts(
    vt: &VTable,
    m: &Model,
    seed: u64,
    keep: Option<&str>,
) -> BTreeMap<String, Transcript> {
    let mut out: BTreeMap<String, Transcript> = BTreeMap::new();
    let want = |item: &str| keep.map_or(false, |k| k == item || k == "*");
    let n = m.n();
    // script seed depends only on the value set
    let mut vs = crate::util::Fnv::default();
    for x in &m.sorted {
        vs.bytes(&x.0.to_le_bytes());
        vs.bytes(x.1.as_bytes());
        vs.bytes(&[0]);
    }
    let script_seed = seed ^ vs.0;

    // probes for try_from: deterministic, clipped to the common domain
    let mut probes: BTreeSet<D> = BTreeSet::new();
    {
        let mut add = |d: D| {
            if d >= vt.probe_lo && d <= vt.probe_hi && m.in_repr(d) {
                probes.insert(d);
            }
        };
        add(vt.probe_lo);
        add(vt.probe_hi);
        for d in [-1, 0, 1] {
            add(d);
        }
        for (b, e) in m.runs.iter().take(200) {
            for d in [b - 2, b - 1, *b, b + 1, e - 1, *e, e + 1, e + 2] {
                add(d);
            }
        }
        for x in m.sorted.iter().take(2000) {
            add(x.0);
        }
    }
    for (item, f) in [("try_from", vt.try_from_fn), ("TryFrom", vt.try_from_trait)] {
        if let Some(f) = f {
            let mut t = Transcript::new(want(item));
            for d in &probes {
                let r = guard(|| f(m.pattern(*d)));
                t.line(match r {
                    Ok(g) => format!("{d} -> {}", ostr(&g)),
                    Err(_) => format!("{d} -> panic"),
                });
            }
            out.insert(item.to_string(), t);
        }
    }
    let cap = n.min(2000);
    for (item, f) in [("into", vt.into_fn), ("Into", vt.into_trait)] {
        if let Some(f) = f {
            let mut t = Transcript::new(want(item));
            for x in m.sorted.iter().take(cap) {
                t.line(match guard(|| f(x.2)) {
                    Ok(g) => format!("{} -> {g}", x.0),
                    Err(_) => format!("{} -> panic", x.0),
                });
            }
            out.insert(item.to_string(), t);
        }
    }
    for (item, f) in [("as_str", vt.as_str), ("IntoStr", vt.into_str)] {
        if let Some(f) = f {
            let mut t = Transcript::new(want(item));
            for x in m.sorted.iter().take(cap) {
                t.line(match guard(|| f(x.2)) {
                    Ok(g) => format!("{} -> {}", x.0, show(g)),
                    Err(_) => format!("{} -> panic", x.0),
                });
            }
            out.insert(item.to_string(), t);
        }
    }
    for (item, f) in [("Display", vt.display), ("Debug", vt.debug)] {
        if let Some(f) = f {
            let mut t = Transcript::new(want(item));
            for x in m.sorted.iter().take(cap) {
                t.line(match fmt_to_string(f, x.2) {
                    Ok(g) => format!("{} -> {}", x.0, show(&g)),
                    Err(e) => format!("{} -> {e}", x.0),
                });
            }
            out.insert(item.to_string(), t);
        }
    }
    if vt.from_str_fn.is_some() || vt.from_str_trait.is_some() {
        // strings derived from the sorted names only
        let mut strings: BTreeSet<String> = BTreeSet::new();
        for x in m.sorted.iter().take(cap) {
            strings.insert(x.1.to_string());
            strings.insert(format!("{} ", x.1));
            strings.insert(x.1.to_lowercase());
            strings.insert(x.1.to_uppercase());
            let mut c = x.1.chars();
            c.next();
            strings.insert(c.collect());
        }
        strings.insert(String::new());
        for (item, f) in [("from_str", vt.from_str_fn), ("FromStr", vt.from_str_trait)] {
            if let Some(f) = f {
                let mut t = Transcript::new(want(item));
                for s in &strings {
                    t.line(match guard(|| f(s.as_str())) {
                        Ok(g) => format!("{} -> {}", show(s), ostr(&g)),
                        Err(_) => format!("{} -> panic", show(s)),
                    });
                }
                out.insert(item.to_string(), t);
            }
        }
    }
    for (item, f) in [("MIN", vt.min), ("MAX", vt.max)] {
        if let Some(f) = f {
            let mut t = Transcript::new(want(item));
            t.line(match guard(f) {
                Ok(g) => format!("-> {g}"),
                Err(_) => "-> panic".to_string(),
            });
            out.insert(item.to_string(), t);
        }
    }
    for (item, f) in [("next", vt.next), ("next_back", vt.next_back)] {
        if let Some(f) = f {
            let mut t = Transcript::new(want(item));
            for x in m.sorted.iter().take(cap) {
                t.line(match guard(|| f(x.2)) {
                    Ok(g) => format!("{} -> {}", x.0, ostr(&g)),
                    Err(_) => format!("{} -> panic", x.0),
                });
            }
            out.insert(item.to_string(), t);
        }
    }
    // iterators: a fixed family of histories
    let universe = |_d: D| true;
    let mut rng = Rng::new(script_seed);
    let mut hs = fixed_histories(n);
    if n <= 5 {
        hs.extend(exhaustive_interleavings(n));
    }
    for _ in 0..24 {
        hs.push(random_history(&mut rng, n, 12));
    }
    let mut scratch = Report::new(vt.id, "REL");
    if let Some(f) = vt.iter {
        let expect: Vec<Val> = m.sorted.iter().map(|x| Val::D(x.0)).collect();
        let mut t = Transcript::new(want("iter"));
        let mut ctx = IterCtx {
            rep: &mut scratch,
            states: HashSet::new(),
            universe: &universe,
        };
        for ops in &hs {
            t.line(format!("history {:?}", ops));
            run_one(&mut ctx, "iter", "iter()", &expect, ops, &|o, s| f(o, s), Some(&mut t));
        }
        out.insert("iter".to_string(), t);
    }
    if let Some(f) = vt.names {
        let expect: Vec<Val> = m.sorted.iter().map(|x| Val::S(x.1)).collect();
        let mut t = Transcript::new(want("names"));
        let mut ctx = IterCtx {
            rep: &mut scratch,
            states: HashSet::new(),
            universe: &universe,
        };
        for ops in &hs {
            t.line(format!("history {:?}", ops));
            run_one(&mut ctx, "names", "names()", &expect, ops, &|o, s| f(o, s), Some(&mut t));
        }
        out.insert("names".to_string(), t);
    }
    if let Some(f) = vt.range {
        let all: Vec<Val> = m.sorted.iter().map(|x| Val::D(x.0)).collect();
        let mut t = Transcript::new(want("range"));
        let mut ctx = IterCtx {
            rep: &mut scratch,
            states: HashSet::new(),
            universe: &universe,
        };
        let mut pairs: Vec<(usize, usize)> = Vec::new();
        if n <= 12 {
            for a in 0..n {
                for b in 0..n {
                    pairs.push((a, b));
                }
            }
        } else {
            let mut r2 = Rng::new(script_seed ^ 0xabcdef);
            let marks = [0, 1, n / 2, n - 2, n - 1];
            for a in marks {
                for b in marks {
                    pairs.push((a, b));
                }
            }
            for _ in 0..100 {
                pairs.push((r2.below(n as u64) as usize, r2.below(n as u64) as usize));
            }
        }
        for (a, b) in pairs {
            let expect: &[Val] = if a <= b { &all[a..=b] } else { &[] };
            let (ia, ib) = (m.sorted[a].2, m.sorted[b].2);
            let what = format!("range({}, {})", m.sorted[a].0, m.sorted[b].0);
            t.line(what.clone());
            let call = |o: &[Op], s: &mut dyn Sink| f(ia, ib, o, s);
            let before = ctx.rep.viol_count;
            for ops in [
                &[Op::Len, Op::Collect][..],
                &[Op::Next, Op::NextBack, Op::Len, Op::RevCollect][..],
            ] {
                run_one(&mut ctx, "range", &what, expect, ops, &call, Some(&mut t));
            }
            if ctx.rep.viol_count != before {
                // a panic leaves no trace in the sink's transcript: make it visible
                t.line(format!("{what}: deviation/panic"));
            }
        }
        out.insert("range".to_string(), t);
    }
    if let Some(z) = vt.zip {
        let mut t = Transcript::new(want("zip"));
        let mut zs = ZipSink::default();
        let r = guard(|| z(&mut zs));
        for (d, s) in zs.pairs.iter().take(cap) {
            t.line(format!("{d} {}", show(s)));
        }
        if r.is_err() {
            t.line("panic".to_string());
        }
        out.insert("zip".to_string(), t);
    }
    let _ = val_str;
    out
}
