"""./check replay <file>: re-run the oracle of a recorded violation on the current tree."""
from __future__ import annotations

import json
import os
import shutil
import subprocess
import sys

from . import build, emit
from .build import WORK
from .emit import VERIF, crate_manifest, dep_enum_tools, write_if_changed


def _build_one(files: dict, deps: dict, cmd="build", bin_main=None):
    root = os.path.join(WORK, "replay")
    shutil.rmtree(root, ignore_errors=True)
    members = ["one"] + (["harness"] if bin_main else [])
    emit.emit_workspace(root, members)
    cdir = os.path.join(root, "one")
    write_if_changed(os.path.join(cdir, "Cargo.toml"), crate_manifest("one", deps))
    for name, text in files.items():
        write_if_changed(os.path.join(cdir, "src", name), text)
    if bin_main:
        hd = os.path.join(root, "harness")
        write_if_changed(os.path.join(hd, "Cargo.toml"), crate_manifest("harness", {
            "monitor": "{ path = \"%s/monitor\" }" % VERIF, "one": "{ path = \"../one\" }"}, kind="bin"))
        write_if_changed(os.path.join(hd, "src", "main.rs"), bin_main)
    rc, msgs, err, secs = build.run_cargo(root, [cmd, "--offline"] + (["-p", "harness"] if bin_main else ["-p", "one"]))
    return root, rc, build.compiler_errors(msgs), err


def main(path: str) -> int:
    with open(path, encoding="utf-8") as fh:
        w = json.load(fh)
    prop = w.get("property")
    kind = w.get("kind")
    print("replaying %s violation (%s): %s" % (prop, kind, w.get("summary", "")[:300]))
    if kind in ("runtime", "abort", "nonmember", "does-not-compile", "hook") and "source" in w and "case" in w:
        cid = w["case"]
        lib = ("#![no_std]\n" if w.get("no_std") else "") + "pub mod k%06d;\npub static CASES: &[&monitor_core::VTable] = &[&k%06d::VT];\n" % (cid, cid)
        root, rc, errors, err = _build_one(
            {"lib.rs": lib, "k%06d.rs" % cid: w["source"]},
            {"enum-tools": dep_enum_tools(), "monitor_core": "{ path = \"%s/monitor_core\" }" % VERIF},
            bin_main="fn main() { monitor::main_with(&[one::CASES]); }\n")
        if rc != 0:
            print("the case does not compile on the current tree:")
            for e in errors[:3]:
                print(e["rendered"][:1500])
            print("VIOLATION property=%s replay=%s" % (prop, path))
            return 1
        if kind == "does-not-compile":
            print("the case compiles on the current tree: not reproduced")
            return 0
        out = os.path.join(root, "out")
        os.makedirs(out, exist_ok=True)
        props = [w.get("prop") or (prop if prop in ("C01", "C03", "C04", "C05", "C06", "C07", "C08") else "C02")]
        p = subprocess.run([os.path.join(root, "target", "debug", "harness"), "--out", out, "--props", ",".join(props),
                            "--budget", w.get("budget") or "quick", "--seed", str(w.get("seed", 1))],
                           capture_output=True)
        bad = p.returncode != 0
        try:
            for line in open(os.path.join(out, "report-0.jsonl")):
                r = json.loads(line)
                for v in r["viol"]:
                    print("  %s: %s" % (v["item"], v["detail"]))
                    bad = True
                for v in r["nonmember"]:
                    print("  non-member value: %s" % v)
                    bad = True
        except OSError:
            bad = True
        if p.returncode != 0:
            print(p.stderr.decode("utf-8", "replace")[-2000:])
        if bad:
            print("VIOLATION property=%s replay=%s" % (prop, path))
            return 1
        print("not reproduced on the current tree")
        return 0
    if kind in ("compile-outcome", "negative-probe", "positive-probe", "signature-probe") and "source" in w:
        deps = {"enum-tools": dep_enum_tools()}
        files = {"lib.rs": "#![allow(dead_code, unused_imports, unused_variables, unreachable_patterns, non_camel_case_types)]\npub mod k000001;\n",
                 "k000001.rs": w["source"]}
        if "vdefs::" in w["source"]:
            print("this probe needs the vdefs library of the vis group; re-run ./check C15 instead")
            return 2
        root, rc, errors, err = _build_one(files, deps)
        expected = w.get("expected") or ("reject" if kind == "negative-probe" else "accept")
        observed = "accept" if rc == 0 else "reject"
        print("expected %s, observed %s" % (expected, observed))
        for e in errors[:2]:
            print(e["rendered"][:1200])
        if expected != observed:
            print("VIOLATION property=%s replay=%s" % (prop, path))
            return 1
        print("not reproduced on the current tree")
        return 0
    print("this witness kind (%s) has no single-case replay; re-run ./check %s" % (kind, prop))
    return 2


if __name__ == "__main__":
    sys.exit(main(sys.argv[1]))
