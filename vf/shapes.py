"""Hostile shape catalogue and seeded random generators for declarations."""
from __future__ import annotations

import random

from .spec import (I64_MAX, I64_MIN, REPRS, REPR_ORDER, Decl, ident_for, make_decl,
                   repr_domain, repr_range)


# ---------------------------------------------------------------------------------------
# value-set shapes: name -> function(repr) -> sorted list of values, or None if the repr
# cannot hold the shape

def _shape_table():
    T = {}

    def shape(name):
        def deco(fn):
            T[name] = fn
            return fn
        return deco

    @shape("gapless_0_4")
    def _(r, lo, hi, signed, bits):
        return list(range(0, 4))

    @shape("gapless_pos")
    def _(r, lo, hi, signed, bits):
        return list(range(5, 10))

    @shape("gapless_neg")
    def _(r, lo, hi, signed, bits):
        return list(range(-7, -3)) if signed else None

    @shape("gapless_span0")
    def _(r, lo, hi, signed, bits):
        return list(range(-2, 3)) if signed else None

    @shape("gapless_to_max")
    def _(r, lo, hi, signed, bits):
        return list(range(hi - 3, hi + 1))

    @shape("gapless_from_min")
    def _(r, lo, hi, signed, bits):
        return list(range(lo, lo + 4)) if signed else None

    @shape("whole_type")
    def _(r, lo, hi, signed, bits):
        return list(range(lo, hi + 1)) if bits == 8 else None

    @shape("single_0")
    def _(r, lo, hi, signed, bits):
        return [0]

    @shape("single_neg")
    def _(r, lo, hi, signed, bits):
        return [-3] if signed else None

    @shape("single_max")
    def _(r, lo, hi, signed, bits):
        return [hi]

    @shape("single_min")
    def _(r, lo, hi, signed, bits):
        return [lo] if signed else None

    @shape("two_runs")
    def _(r, lo, hi, signed, bits):
        return [0, 1, 2, 10, 11]

    @shape("two_runs_off")
    def _(r, lo, hi, signed, bits):
        return [3, 4, 9, 10, 11, 12]

    @shape("every2")
    def _(r, lo, hi, signed, bits):
        return list(range(0, 12, 2))

    @shape("every3_neg")
    def _(r, lo, hi, signed, bits):
        return list(range(-9, 10, 3)) if signed else list(range(1, 20, 3))

    @shape("touch_min_max")
    def _(r, lo, hi, signed, bits):
        mid = 0 if signed else hi // 2
        return [lo, lo + 1, mid, hi - 1, hi]

    @shape("neg_later_runs")
    def _(r, lo, hi, signed, bits):
        return [-10, -5, -4, 3] if signed else None

    @shape("neg_many_runs")
    def _(r, lo, hi, signed, bits):
        return [-40, -39, -30, -20, -19, -18, -7, -1, 0, 1, 5] if signed else None

    @shape("first_run_at_min")
    def _(r, lo, hi, signed, bits):
        return [lo, lo + 2, lo + 3, hi] if signed else None

    @shape("run_at_min_then_neg")
    def _(r, lo, hi, signed, bits):
        return [lo, lo + 1, -9, -8, -1] if signed and lo + 1 < -9 else None

    @shape("singleton_extremes")
    def _(r, lo, hi, signed, bits):
        return [lo, 7, hi] if lo < 7 < hi else None

    @shape("gap1")
    def _(r, lo, hi, signed, bits):
        return [0, 1, 3, 4, 6]

    @shape("gap1_neg")
    def _(r, lo, hi, signed, bits):
        return [-6, -4, -3, -1, 0, 2] if signed else None

    @shape("last_run_at_max")
    def _(r, lo, hi, signed, bits):
        return [0, 1, hi - 2, hi - 1, hi]

    @shape("i8_many_before_later")
    def _(r, lo, hi, signed, bits):
        # more than 128 variants before a later run: the offset literal exceeds i8::MAX
        if bits != 8:
            return None
        if signed:
            return list(range(-128, 10)) + list(range(12, 20))
        return list(range(0, 140)) + list(range(150, 160)) + [200, 255]

    @shape("n255_holes")
    def _(r, lo, hi, signed, bits):
        if bits == 8 and signed:
            return None
        if bits == 8:
            return list(range(0, 200)) + list(range(201, 256))
        return list(range(0, 200)) + list(range(300, 355))

    @shape("n256_gapless")
    def _(r, lo, hi, signed, bits):
        if bits == 8:
            return None
        return list(range(lo if signed and bits == 16 else 0, (lo if signed and bits == 16 else 0) + 256))

    @shape("n257_holes")
    def _(r, lo, hi, signed, bits):
        if bits == 8:
            return None
        base = -100 if signed else 0
        return list(range(base, base + 130)) + list(range(base + 131, base + 258))

    @shape("i64_extremes")
    def _(r, lo, hi, signed, bits):
        if bits < 64 or not signed:
            return None
        return [I64_MIN, I64_MIN + 1, -1, 0, I64_MAX - 1, I64_MAX]

    @shape("i64_min_plus")
    def _(r, lo, hi, signed, bits):
        # stays clear of the i64::MIN literal itself
        if bits < 64 or not signed:
            return None
        return [I64_MIN + 1, I64_MIN + 2, -5, -4, I64_MAX - 1, I64_MAX]

    @shape("u64_high")
    def _(r, lo, hi, signed, bits):
        if bits < 64 or signed:
            return None
        return [0, 5, I64_MAX - 1, I64_MAX]

    @shape("wide_gapless_high")
    def _(r, lo, hi, signed, bits):
        if bits < 32:
            return None
        top = min(hi, I64_MAX)
        return list(range(top - 5, top + 1))

    @shape("many_runs_uneven")
    def _(r, lo, hi, signed, bits):
        # >= 9 runs, >= 17 runs in the long form; later runs longer than earlier ones and vice versa
        vs = []
        cur = 0
        for i, ln in enumerate([1, 1, 2, 1, 3, 1, 1, 4, 2, 1, 5, 1, 2, 1, 1, 3, 1, 2, 6]):
            vs.extend(range(cur, cur + ln))
            cur += ln + 1 + (i % 2)
        return vs if cur < hi else vs[:20]

    @shape("span_alias")
    def _(r, lo, hi, signed, bits):
        # (max - min) equals (number of variants - 1) modulo the next narrower width: a truncated span looks gapless
        w = {16: 8, 32: 16, 64: 32, 128: 32}.get(bits)
        if w is None:
            return None
        return [0, 1, (1 << w) + 2]

    @shape("span_alias16")
    def _(r, lo, hi, signed, bits):
        # the same coincidence modulo 2^16 in every repr wider than 16 bits, modulo 2^8 in 16-bit reprs
        if bits == 8:
            return None
        return [0, 1, 65538] if bits > 16 else [0, 1, 258]

    @shape("span_alias_neg")
    def _(r, lo, hi, signed, bits):
        w = {16: 8, 32: 16, 64: 32, 128: 32}.get(bits)
        if w is None or not signed:
            return None
        return [-3, -2, -1, (1 << w) + 1]

    @shape("even_step_wide")
    def _(r, lo, hi, signed, bits):
        # evenly spaced, step not a power of two, spanning more than half of the type
        span = hi - lo
        step = span // 5 - 1
        if step & (step - 1) == 0:
            step -= 1
        start = lo + 3
        return [start + k * step for k in range(5)]

    @shape("bitflags_zero")
    def _(r, lo, hi, signed, bits):
        # single-bit values plus zero with one lower bit unused: max == 1 << (n - 1) although 0 is a member
        # (round 5, V03b: a "flag set" fast path indexing by trailing_zeros)
        return [0, 1, 2, 8]

    @shape("bitflags_zero6")
    def _(r, lo, hi, signed, bits):
        return [0, 1, 2, 4, 16, 32]

    @shape("bitflags_full")
    def _(r, lo, hi, signed, bits):
        n = min(bits - (2 if signed else 1), 40)
        return [1 << k for k in range(n)]

    @shape("bitflags_signbit")
    def _(r, lo, hi, signed, bits):
        # the sign bit of the repr (or of i64 for the 128-bit and wider-than-i64 reprs) as one more "flag"
        if not signed:
            return None
        return [max(lo, -(1 << 63)), 1, 2, 4]

    @shape("span64_holes")
    def _(r, lo, hi, signed, bits):
        # MAX - MIN an exact multiple of 64 (a bitmap of the members, one word short: round 6, W01a)
        return [3, 5, 6, 67]

    @shape("span128_neg")
    def _(r, lo, hi, signed, bits):
        if not signed:
            return None
        return [-128, -127, -1, 0]

    @shape("span256_holes")
    def _(r, lo, hi, signed, bits):
        if bits == 8:
            return [0, 1, 100, 192] if not signed else [-64, -63, 0, 64]
        return [0, 1, 100, 256]

    @shape("span448_holes")
    def _(r, lo, hi, signed, bits):
        if bits == 8:
            return None
        return [-200, -199, 0, 248] if signed else [10, 11, 200, 458]

    @shape("many_runs_40")
    def _(r, lo, hi, signed, bits):
        # ~40 runs of uneven length (more than any plausible "many runs" threshold), ~100 variants
        if bits == 8:
            return None
        vs = []
        cur = -50 if signed else 3
        for i in range(40):
            ln = 1 + (i * 7 + 3) % 5
            vs.extend(range(cur, cur + ln))
            cur += ln + 1 + (i % 3)
        return vs

    @shape("many_runs_uneven_neg")
    def _(r, lo, hi, signed, bits):
        if not signed:
            return None
        vs = []
        cur = -60
        for i, ln in enumerate([2, 1, 1, 3, 1, 4, 1, 1, 2, 5, 1, 3]):
            vs.extend(range(cur, cur + ln))
            cur += ln + 2 - (i % 2)
        return vs

    # runs touching the limits of a *narrower* type inside a wider repr (for usize/isize: the
    # 32-bit limits, which is what the macro guesses as their size)
    def narrow(bits, r):
        if r in ("usize", "isize"):
            return 32
        return {16: 8, 32: 16, 64: 32, 128: 64}.get(bits)

    @shape("narrow_umax_gapless")
    def _(r, lo, hi, signed, bits):
        w = narrow(bits, r)
        if w is None:
            return None
        top = min((1 << w) - 1, I64_MAX)
        return list(range(top - 2, top + 1))

    @shape("narrow_imax_gapless")
    def _(r, lo, hi, signed, bits):
        w = narrow(bits, r)
        if w is None:
            return None
        top = (1 << (w - 1)) - 1
        return list(range(top - 3, top + 1))

    @shape("narrow_imin_gapless")
    def _(r, lo, hi, signed, bits):
        w = narrow(bits, r)
        if w is None or not signed:
            return None
        bot = -(1 << (w - 1))
        return list(range(bot, bot + 3))

    @shape("narrow_limits_holes")
    def _(r, lo, hi, signed, bits):
        w = narrow(bits, r)
        if w is None:
            return None
        umax = min((1 << w) - 1, I64_MAX)
        imax = (1 << (w - 1)) - 1
        vs = [0, 1, imax - 1, imax] + ([umax - 1, umax] if umax > imax + 1 else [])
        if signed:
            vs = [-(1 << (w - 1)), -(1 << (w - 1)) + 1] + vs
        return sorted(set(vs))

    @shape("across_narrow_umax")
    def _(r, lo, hi, signed, bits):
        w = narrow(bits, r)
        if w is None or (1 << w) + 2 > min(hi, I64_MAX):
            return None
        top = (1 << w) - 1
        return [top - 1, top, top + 1, top + 2, top + 10]

    return T


SHAPES = _shape_table()


def shape_values(name: str, r: str):
    bits, signed = REPRS[r]
    lo, hi = repr_domain(r)
    vs = SHAPES[name](r, lo, hi, signed, bits)
    if vs is None:
        return None
    assert all(lo <= v <= hi for v in vs), (name, r)
    assert len(set(vs)) == len(vs)
    return sorted(vs)


# ---------------------------------------------------------------------------------------
# orders, spellings, renames

def order_values(values, order: str, rng: random.Random):
    vs = list(values)
    if order == "asc":
        return vs
    if order == "desc":
        return vs[::-1]
    if order == "perm":
        rng.shuffle(vs)
        return vs
    if order == "rot":
        k = len(vs) // 2
        return vs[k:] + vs[:k]
    raise ValueError(order)


def spell(value: int, r: str, style: str, rng: random.Random) -> str:
    """a literal spelling of value accepted by rustc without lints for repr r"""
    lo, hi = repr_range(r)
    if style == "dec" or value == lo and lo < 0:
        # the type minimum of a signed type: only the plain decimal form is lint-free
        return str(value)
    neg = value < 0
    mag = -value if neg else value
    form = style
    if style == "mixed":
        form = rng.choice(["dec", "hex", "oct", "bin", "under", "suffix", "hexsuffix", "spaced"])
    if form == "dec":
        body = str(mag)
    elif form == "hex":
        body = "0x%X" % mag if rng.random() < 0.5 else "0x%x" % mag
    elif form == "oct":
        body = "0o%o" % mag
    elif form == "bin":
        body = "0b%s" % bin(mag)[2:] if mag < (1 << 20) else "0x%x" % mag
    elif form == "under":
        s = str(mag)
        body = s[0] + "_" + s[1:] if len(s) > 1 else s + "_"
    elif form == "suffix":
        body = "%d%s" % (mag, r)
    elif form == "hexsuffix":
        body = "0x%X_%s" % (mag, r)
    elif form == "spaced":
        body = str(mag)
        return ("- " + body) if neg else body
    else:
        raise ValueError(form)
    return ("-" + body) if neg else body


RENAME_POOL = [
    "", " ", "A*", "a b", "\"q\"", "back\\slash", "{}", "{0}", "{{", "nul\0in", "é", "日本", "ß",
    "tab\there", "new\nline", "x" * 300, "None", "Some", "self", "r#type", "'", "0", "-1",
    "A", "B", "a", "Aa", "AA", "é", "é", "\U0001F600",

    # names of generated items (default and the custom names the corpus uses)
    "MIN", "MAX", "FIRST", "LAST", "iter", "next", "as_str", "__MIN", "__NAME", "into", "names",
]


def apply_renames(items, style: str, rng: random.Random):
    """items: list of [ident, expr, rename]; returns new list"""
    n = len(items)
    out = [list(it) for it in items]
    if style == "none" or n == 0:
        return out
    if style == "first":
        out[0][2] = out[0][0] + "*"
    elif style == "pool":
        k = max(1, n // 2) if n < 40 else 20
        for i in rng.sample(range(n), min(k, n)):
            out[i][2] = rng.choice(RENAME_POOL)
    elif style == "dups":
        # several variants share a name; another is renamed to a different variant's identifier
        if n >= 2:
            out[0][2] = "same"
            out[n - 1][2] = "same"
        if n >= 3:
            out[1][2] = out[2][0]
        if n >= 5:
            out[3][2] = "same"
    elif style == "edits":
        # names within one edit / case of each other
        base = "Name"
        forms = ["Name", "name", "NAME", "Nam", "Namee", "Nane", " Name", "Name ", "Namé"]
        for i in range(min(n, len(forms))):
            out[i][2] = forms[i]
        del base
    elif style == "swap":
        # every variant gets another variant's identifier as its name (a derangement)
        idents = [it[0] for it in out]
        for i in range(n):
            out[i][2] = idents[(i + 1) % n]
    elif style == "multibyte":
        # short ASCII names plus names whose UTF-8 length exceeds every name's character count
        forms = ["a", "bb", "\u00e4\u00f6\u00fc\u00df", "c", "\u65e5\u672c\u8a9e", "dd", "\U0001F600\U0001F600", "Gr\u00f6\u00dfe", "e"]
        for i in range(n):
            out[i][2] = forms[i] if i < len(forms) else "n%d" % i
    elif style == "all":
        for i in range(n):
            out[i][2] = "n%d" % i
    else:
        raise ValueError(style)
    return out


def build_decl(r: str, values_in_order, shape: str, spelling: str, renames: str,
               rng: random.Random, implicit=True, attrs=False) -> Decl:
    """turn a value sequence (declaration order) into a declaration"""
    items = []
    last = -1
    for i, v in enumerate(values_in_order):
        expr = None
        can_implicit = (v == last + 1)
        if spelling == "implicit":
            use_implicit = can_implicit
        elif spelling == "dec":
            use_implicit = False
        else:
            use_implicit = can_implicit and implicit and rng.random() < 0.4
        if not use_implicit:
            expr = spell(v, r, "dec" if spelling == "implicit" else spelling, rng)
        last = v
        items.append([ident_for(i), expr, None])
    items = apply_renames(items, renames, rng)
    enum_attrs = []
    if attrs:
        enum_attrs = ["/// doc comment on the enum", "#[allow(dead_code)]", "#[doc = \"more\"]",
                      "#[cfg_attr(all(), allow(unused))]"]
        for i, it in enumerate(items):
            fa = []
            if i % 3 == 0:
                fa.append("/// doc comment on a variant")
            if i % 3 == 1:
                fa.append("#[allow(dead_code)]")
            if i % 4 == 2:
                fa.append("#[cfg_attr(all(), doc = \"x\")]")
            it.append(fa)
    d = make_decl(r, items, shape=shape, enum_attrs=enum_attrs)
    # the model must reproduce the requested values
    assert [v.value for v in d.variants] == list(values_in_order), (shape, r)
    return d


# ---------------------------------------------------------------------------------------
# random declarations

def random_values(r: str, rng: random.Random, max_n=24):
    lo, hi = repr_domain(r)
    size = hi - lo + 1
    total = rng.randint(1, min(max_n, size))
    nruns = min(total, rng.choice([1, 1, 2, 2, 3, 4, 6]))
    cuts = sorted(rng.sample(range(1, total), nruns - 1)) if nruns > 1 else []
    lens = [b - a for a, b in zip([0] + cuts, cuts + [total])]
    gaps = [rng.choice([1, 1, 2, 3, 7, 100]) for _ in range(nruns - 1)]
    while total + sum(gaps) > size and any(g > 1 for g in gaps):
        gaps[gaps.index(max(gaps))] = 1
    while total + sum(gaps) > size:
        # no room for that many holes: merge runs
        gaps.pop()
        lens[-2:] = [lens[-2] + lens[-1]]
    width = total + sum(gaps)
    anchor = rng.random()
    if anchor < 0.25:
        start = lo
    elif anchor < 0.5:
        start = hi - width + 1
    elif anchor < 0.75 and lo < 0:
        start = rng.randint(-40, 5)
    else:
        start = rng.randint(max(lo, -1000), max(max(lo, -1000), min(hi - width + 1, 1000)))
    start = max(lo, min(start, hi - width + 1))
    vs = []
    cur = start
    for i, l in enumerate(lens):
        if i > 0:
            cur += gaps[i - 1]
        vs.extend(range(cur, cur + l))
        cur += l
    assert all(lo <= v <= hi for v in vs) and len(set(vs)) == len(vs), (r, vs[:3], vs[-3:])
    return vs


def random_decl(r: str, rng: random.Random, max_n=24) -> Decl:
    vs = random_values(r, rng, max_n)
    order = rng.choice(["asc", "desc", "perm", "perm", "rot"])
    spelling = rng.choice(["dec", "implicit", "mixed", "mixed", "hex"])
    renames = rng.choice(["none", "first", "pool", "dups", "edits", "swap", "all", "multibyte"])
    seq = order_values(vs, order, rng)
    return build_decl(r, seq, "random", spelling, renames, rng, attrs=rng.random() < 0.3)
