"""cargo driver: builds, JSON diagnostics, attribution of errors to cases, hook-log store."""
from __future__ import annotations

import fcntl
import glob
import hashlib
import json
import os
import re
import shutil
import subprocess
import time

from .emit import VERIF, repo_path

WORK = os.environ.get("VERIF_WORK") or os.path.join(VERIF, "work")


def base_env(extra=None) -> dict:
    env = dict(os.environ)
    env["CARGO_NET_OFFLINE"] = "true"
    env["RUST_BACKTRACE"] = "0"
    env["CARGO_TERM_COLOR"] = "never"
    env.pop("RUSTFLAGS", None)
    if extra:
        env.update(extra)
    return env


def tree_hash() -> str:
    """identity of the macro's sources under test"""
    h = hashlib.sha256()
    root = repo_path()
    files = [os.path.join(root, "Cargo.toml"), os.path.join(root, "Cargo.lock")]
    for dp, dn, fn in os.walk(os.path.join(root, "src")):
        dn.sort()
        for f in sorted(fn):
            files.append(os.path.join(dp, f))
    for f in files:
        h.update(f.encode())
        try:
            with open(f, "rb") as fh:
                h.update(fh.read())
        except OSError:
            h.update(b"<missing>")
    return h.hexdigest()


class Lock:
    def __init__(self, path):
        self.path = path
        self.fh = None

    def __enter__(self):
        os.makedirs(os.path.dirname(self.path), exist_ok=True)
        self.fh = open(self.path, "w")
        fcntl.flock(self.fh, fcntl.LOCK_EX)
        return self

    def __exit__(self, *a):
        fcntl.flock(self.fh, fcntl.LOCK_UN)
        self.fh.close()


class Inconclusive(Exception):
    pass


CASE_FILE = re.compile(r"k(\d{6})\.rs$")


def run_cargo(root: str, args: list, env=None, timeout=3600, json_messages=True):
    """-> (returncode, messages, stderr_text)"""
    cmd = ["cargo"] + args
    if json_messages:
        cmd.append("--message-format=json")
    t0 = time.time()
    try:
        p = subprocess.run(cmd, cwd=root, env=base_env(env), capture_output=True, timeout=timeout)
    except subprocess.TimeoutExpired:
        raise Inconclusive("cargo %s timed out after %ds in %s" % (" ".join(args), timeout, root))
    msgs = []
    if json_messages:
        for line in p.stdout.decode("utf-8", "replace").splitlines():
            if line.startswith("{"):
                try:
                    msgs.append(json.loads(line))
                except ValueError:
                    pass
    return p.returncode, msgs, p.stderr.decode("utf-8", "replace"), time.time() - t0


def compiler_errors(msgs):
    """-> list of dicts {message, code, file, line, rendered, crate}"""
    out = []
    for m in msgs:
        if m.get("reason") != "compiler-message":
            continue
        d = m["message"]
        if d.get("level") not in ("error", "error: internal compiler error"):
            continue
        if d.get("message", "").startswith("aborting due to"):
            continue
        if d.get("message", "").startswith("could not compile"):
            continue
        spans = d.get("spans") or []
        prim = [s for s in spans if s.get("is_primary")] or spans
        files = []
        for s in prim:
            # walk out of macro expansions to the user's file
            cur = s
            seen = 0
            while cur is not None and seen < 20:
                files.append((cur.get("file_name", ""), cur.get("line_start", 0)))
                exp = cur.get("expansion")
                cur = exp.get("span") if exp else None
                seen += 1
        out.append({
            "message": d.get("message", ""),
            "code": (d.get("code") or {}).get("code"),
            "files": files,
            "rendered": d.get("rendered", ""),
            "crate": m.get("target", {}).get("name", ""),
        })
    return out


def attribute(errors):
    """-> ({case_id: [error]}, [unattributed error])"""
    by_case, rest = {}, []
    for e in errors:
        cid = None
        for f, _ in e["files"]:
            m = CASE_FILE.search(f)
            if m:
                cid = int(m.group(1))
                break
        if cid is None:
            # children / rendered text may still name the file
            m = re.search(r"k(\d{6})\.rs", e["rendered"])
            if m:
                cid = int(m.group(1))
        if cid is None:
            rest.append(e)
        else:
            by_case.setdefault(cid, []).append(e)
    return by_case, rest


# ---------------------------------------------------------------------------------------
# hook log store: <root>/hook/<crate>.jsonl holds the records of the latest expansion of
# each crate

def collect_hooklog(root: str) -> int:
    logdir = os.path.join(root, "hooklog")
    store = os.path.join(root, "hook")
    os.makedirs(store, exist_ok=True)
    by_crate = {}
    files = sorted(glob.glob(os.path.join(logdir, "*.jsonl")), key=os.path.getmtime)
    for f in files:
        with open(f, "r", encoding="utf-8", errors="replace") as fh:
            recs = []
            for line in fh:
                line = line.strip()
                if not line:
                    continue
                try:
                    recs.append(json.loads(line))
                except ValueError:
                    pass
        if recs:
            # one rustc process = one crate; later processes supersede earlier ones
            by_crate[recs[0].get("crate", "?")] = recs
        os.remove(f)
    for crate, recs in by_crate.items():
        with open(os.path.join(store, crate + ".jsonl"), "w", encoding="utf-8") as fh:
            for r in recs:
                fh.write(json.dumps(r) + "\n")
    return len(by_crate)


def load_hook(root: str, crates=None):
    """-> {case_id: {'begin':..,'resolved':..,'end':..}} using the `case:NNNNNN` doc marker"""
    store = os.path.join(root, "hook")
    out = {}
    for f in glob.glob(os.path.join(store, "*.jsonl")):
        crate = os.path.basename(f)[:-6]
        if crates is not None and crate not in crates:
            continue
        cur = {}
        with open(f, "r", encoding="utf-8") as fh:
            for line in fh:
                r = json.loads(line)
                key = (r["pid"], r["seq"])
                cur.setdefault(key, {})[r["k"]] = r
        for key, rec in cur.items():
            b = rec.get("begin")
            if not b:
                continue
            m = re.search(r'case:(\d{6})', b["input"])
            if m:
                out[int(m.group(1))] = rec
    return out


def prepare_root(root: str) -> bool:
    """wipe stale observations when the tree under test changed; -> changed?"""
    os.makedirs(root, exist_ok=True)
    stamp = os.path.join(root, ".tree")
    h = tree_hash()
    old = None
    try:
        old = open(stamp).read().strip()
    except OSError:
        pass
    if old != h:
        for d in ("hook", "hooklog", "out"):
            shutil.rmtree(os.path.join(root, d), ignore_errors=True)
        with open(stamp, "w") as fh:
            fh.write(h)
        return True
    return False
