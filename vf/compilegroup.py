"""Compile-outcome monitor: batches of generated items with an expected verdict
(accept / reject), two-stage confirmation, control copies, hook-log collection."""
from __future__ import annotations

import os
import shutil
import subprocess
import time
from dataclasses import dataclass, field
from typing import Optional

from . import build, emit
from .build import Inconclusive, WORK
from .emit import VERIF, crate_manifest, dep_enum_tools, write_if_changed


@dataclass
class Item:
    id: int
    text: str                 # contents of k<id>.rs
    expect: str               # "accept" | "reject"
    meta: dict = field(default_factory=dict)
    control: Optional[str] = None   # same item with derive / enum_tools attributes stripped
    deps: tuple = ()          # extra crate deps ("monitor_core",)


class CompileGroup:
    def __init__(self, name: str, tier: str, per_crate=120):
        self.name = name
        self.tier = tier
        self.root = os.path.join(WORK, "%s-%s" % (name, tier))
        self.per_crate = per_crate
        self.secs = 0.0
        self.rustc_processes = 0
        self.current_crates = set()
        self.libs = {}  # name -> {id: module text}: library crates items may depend on
        self.lib_dropped = {}  # name -> {id: [errors]}: modules which did not compile

    def _lib_dep(self, name):
        return "{ path = \"%s\" }" % os.path.join(self.root, name)

    def _emit_libs(self):
        """library crates: {name: {id: module text}} -> one file k<id>.rs per module"""
        for name, mods in self.libs.items():
            cdir = os.path.join(self.root, name)
            src = os.path.join(cdir, "src")
            os.makedirs(src, exist_ok=True)
            write_if_changed(os.path.join(cdir, "Cargo.toml"), crate_manifest(name, {"enum-tools": dep_enum_tools()}))
            dropped = self.lib_dropped.get(name, {})
            keep = {"lib.rs"}
            lines = ["#![allow(dead_code, unused_imports, private_interfaces, unreachable_patterns)]"]
            for mid, text in sorted(mods.items()):
                if mid in dropped:
                    continue
                fn = "k%06d.rs" % mid
                keep.add(fn)
                write_if_changed(os.path.join(src, fn), text)
                lines.append("pub mod k%06d;" % mid)
            write_if_changed(os.path.join(src, "lib.rs"), "\n".join(lines) + "\n")
            for f in os.listdir(src):
                if f not in keep:
                    os.remove(os.path.join(src, f))

    def build_libs(self):
        """build the libraries, dropping modules which do not compile (remembered in lib_dropped)"""
        build.prepare_root(self.root)
        for name in self.libs:
            self.lib_dropped.setdefault(name, {})
            for rnd in range(5):
                self._workspace([])
                rc, msgs, err = self._cargo([name], "build")
                if rc == 0:
                    break
                by_case, rest = build.attribute(build.compiler_errors(msgs))
                if not by_case:
                    raise Inconclusive("library %s does not build and no error could be attributed to a module:\n%s\n%s" % (
                        name, "\n".join(e["rendered"] for e in rest[:4]), err[-2000:]))
                self.lib_dropped[name].update(by_case)
            else:
                raise Inconclusive("library %s still fails after dropping modules" % name)

    # -- emission ----------------------------------------------------------------------
    def _emit_crate(self, crate: str, items: list, use_control=False, no_std=False):
        self.current_crates.add(crate)
        cdir = os.path.join(self.root, crate)
        src = os.path.join(cdir, "src")
        os.makedirs(src, exist_ok=True)
        deps = {"enum-tools": dep_enum_tools()}
        if any("monitor_core" in it.deps for it in items):
            deps["monitor_core"] = "{ path = \"%s/monitor_core\" }" % VERIF
        for lib in self.libs:
            if any(lib in it.deps for it in items):
                deps[lib] = self._lib_dep(lib)
        write_if_changed(os.path.join(cdir, "Cargo.toml"), crate_manifest(crate, deps))
        keep = {"lib.rs"}
        lib = ["#![no_std]"] if no_std else []
        lib.append("#![allow(dead_code, unused_imports, unused_variables, unreachable_patterns, non_camel_case_types, non_upper_case_globals)]")
        for it in items:
            fn = "k%06d.rs" % it.id
            keep.add(fn)
            write_if_changed(os.path.join(src, fn), it.control if use_control else it.text)
            lib.append("pub mod k%06d;" % it.id)
        write_if_changed(os.path.join(src, "lib.rs"), "\n".join(lib) + "\n")
        for f in os.listdir(src):
            if f not in keep:
                os.remove(os.path.join(src, f))

    def _workspace(self, crates: list):
        emit.emit_workspace(self.root, list(self.libs) + crates)
        self._emit_libs()

    def _cargo(self, crates: list, cmd="build", timeout=5400):
        os.makedirs(os.path.join(self.root, "hooklog"), exist_ok=True)
        args = [cmd, "--offline", "--keep-going"]
        for c in crates:
            args += ["-p", c]
        rc, msgs, err, secs = build.run_cargo(
            self.root, args, env={"ENUM_TOOLS_VERIF_LOG": os.path.join(self.root, "hooklog")},
            timeout=timeout)
        self.rustc_processes += build.collect_hooklog(self.root)
        self.secs += secs
        return rc, msgs, err

    def probe_bin_raw(self, name: str, main_text: str, timeout=120):
        """like probe_bin, but -> (built?, returncode, stdout, stderr-or-compiler-errors): nothing is an error here"""
        build.prepare_root(self.root)
        cdir = os.path.join(self.root, name)
        os.makedirs(os.path.join(cdir, "src"), exist_ok=True)
        write_if_changed(os.path.join(cdir, "Cargo.toml"),
                         crate_manifest(name, {"enum-tools": dep_enum_tools()}, kind="bin"))
        write_if_changed(os.path.join(cdir, "src", "main.rs"), main_text)
        emit.emit_workspace(self.root, list(self.libs) + [name])
        self._emit_libs()
        rc, msgs, err = self._cargo([name], "build")
        if rc != 0:
            errs = build.compiler_errors(msgs)
            if not errs:
                raise Inconclusive("probe %s failed to build without diagnostics: %s" % (name, err[-1500:]))
            return False, None, "", "\n".join(e["message"] for e in errs[:3])
        exe = os.path.join(self.root, "target", "debug", name)
        try:
            p = subprocess.run([exe], capture_output=True, text=True, timeout=timeout,
                               env=dict(os.environ, RUST_BACKTRACE="0"))
        except subprocess.TimeoutExpired:
            raise Inconclusive("probe %s timed out" % name)
        return True, p.returncode, p.stdout, p.stderr

    def probe_bin(self, name: str, main_text: str, timeout=120) -> str:
        """build and run a small binary next to the group's crates (same target dir); -> its stdout.
        Used to *observe* a behaviour an expectation depends on where the documentation leaves it open."""
        build.prepare_root(self.root)
        cdir = os.path.join(self.root, name)
        os.makedirs(os.path.join(cdir, "src"), exist_ok=True)
        write_if_changed(os.path.join(cdir, "Cargo.toml"),
                         crate_manifest(name, {"enum-tools": dep_enum_tools()}, kind="bin"))
        write_if_changed(os.path.join(cdir, "src", "main.rs"), main_text)
        emit.emit_workspace(self.root, list(self.libs) + [name])
        self._emit_libs()
        rc, msgs, err = self._cargo([name], "build")
        if rc != 0:
            raise Inconclusive("probe %s does not build:\n%s" % (
                name, "\n".join(e["rendered"] for e in build.compiler_errors(msgs)[:3]) or err[-1500:]))
        exe = os.path.join(self.root, "target", "debug", name)
        try:
            p = subprocess.run([exe], capture_output=True, text=True, timeout=timeout)
        except subprocess.TimeoutExpired:
            raise Inconclusive("probe %s timed out" % name)
        if p.returncode != 0:
            raise Inconclusive("probe %s exited with %d: %s" % (name, p.returncode, p.stderr[-500:]))
        return p.stdout

    # -- the monitor -------------------------------------------------------------------
    def _batch(self, crates: dict, cmd: str, use_control=False):
        """build the given {crate: [items]}; -> (built_crates, {(crate, id): [errors]}, unattributed)"""
        names = [n for n, v in crates.items() if v]
        if not names:
            return set(), {}, []
        for n in names:
            self._emit_crate(n, crates[n], use_control=use_control and n.startswith("ctl"))
        rc, msgs, err = self._cargo(names, cmd)
        built = {m["target"]["name"] for m in msgs
                 if m.get("reason") == "compiler-artifact" and m.get("target", {}).get("name") in names}
        errs = build.compiler_errors(msgs)
        by = {}
        rest = []
        for e in errs:
            one, r = build.attribute([e])
            if one:
                for cid, lst in one.items():
                    by.setdefault((e["crate"], cid), []).extend(lst)
            else:
                rest.append(e)
        for n in names:
            if n not in built and not any(k[0] == n for k in by):
                raise Inconclusive("group %s: crate %s failed and no error could be attributed to an item:\n%s\n%s" % (
                    self.name, n, "\n".join(e["rendered"] for e in rest[:4]), err[-2500:]))
        return built, by, rest

    def run(self, items: list, reject_cmd="check"):
        """-> {id: {"outcome": "accept"|"reject"|"unknown", "errors": [...], "alone": bool,
                    "control_failed": bool}}"""
        build.prepare_root(self.root)
        results = {}
        acc = [it for it in items if it.expect == "accept"]
        rej = [it for it in items if it.expect == "reject"]
        ctl = [it for it in items if it.control is not None]
        pc = self.per_crate
        live = {("a_%02d" % i): acc[i * pc:(i + 1) * pc] for i in range((len(acc) + pc - 1) // pc)}
        live.update({("ctl_%02d" % i): ctl[i * pc:(i + 1) * pc] for i in range((len(ctl) + pc - 1) // pc)})
        rcr = {("r0_%02d" % i): rej[i * pc:(i + 1) * pc] for i in range((len(rej) + pc - 1) // pc)}
        self._workspace(list(live) + list(rcr))
        for n in rcr:
            self._emit_crate(n, rcr[n])
        # ---- expected accept and control copies: drop failing items until the crates build
        failed_acc = {}
        failed_ctx = {}  # id -> the items which preceded it in its crate when it failed
        control_failed = {}
        for rnd in range(6):
            built, by, rest = self._batch(live, "build", use_control=True)
            if not by:
                break
            for (crate, cid), errs in by.items():
                if crate.startswith("ctl"):
                    control_failed[cid] = errs
                else:
                    failed_acc[cid] = errs
                    ids = [x.id for x in live[crate]]
                    failed_ctx[cid] = live[crate][:ids.index(cid)] if cid in ids else []
            for n in live:
                bad = control_failed if n.startswith("ctl") else failed_acc
                live[n] = [it for it in live[n] if it.id not in bad]
        else:
            raise Inconclusive("group %s: accept crates still fail after 6 rounds" % self.name)
        for n, v in live.items():
            if n.startswith("ctl"):
                continue
            for it in v:
                results[it.id] = {"outcome": "accept", "errors": [], "alone": False}
        by_id = {it.id: it for it in items}
        for cid, errs in failed_acc.items():
            ok, errors = self.confirm_alone(by_id[cid])
            results[cid] = {"outcome": "accept" if ok else "reject", "errors": errors or errs, "alone": True}
            if ok and failed_ctx.get(cid):
                # compiles alone but failed in its crate: rebuild it after the items which preceded it there.  The
                # derive must not carry state from one expansion to the next (a user's crate holds many enums).
                ok2, errors2 = self.confirm_alone(by_id[cid], context=failed_ctx[cid])
                if not ok2:
                    results[cid] = {"outcome": "reject", "errors": errors2, "alone": True, "context_dependent": True,
                                    "context_items": len(failed_ctx[cid])}
        # ---- expected reject: screen in batches, re-batch what shows no error, isolate the rest
        pending = list(rej)
        rnd = 0
        while pending:
            if rnd > 0:
                rcr = {("r%d_%02d" % (rnd, i)): pending[i * pc:(i + 1) * pc]
                       for i in range((len(pending) + pc - 1) // pc)}
                self._workspace([n for n, v in live.items() if v] + list(rcr))
            built, by, rest = self._batch(rcr, reject_cmd)
            still = []
            progressed = False
            for n, v in rcr.items():
                for it in v:
                    if (n, it.id) in by:
                        results[it.id] = {"outcome": "reject", "errors": by[(n, it.id)], "alone": False}
                        progressed = True
                    elif n in built:
                        results[it.id] = {"outcome": "accept", "errors": [], "alone": False}
                        progressed = True
                    else:
                        still.append(it)
            pending = still
            rnd += 1
            if pending and (not progressed or rnd >= 3 or len(pending) <= 16):
                for it in pending[:80]:
                    ok, errors = self.confirm_alone(it)
                    results[it.id] = {"outcome": "accept" if ok else "reject", "errors": errors, "alone": True}
                for it in pending[80:]:
                    results[it.id] = {"outcome": "unknown", "errors": [], "alone": False}
                pending = []
        # an expected-reject item which a batch accepted is confirmed alone as well
        for it in rej:
            r = results.get(it.id)
            if r and r["outcome"] == "accept" and not r["alone"]:
                ok, errors = self.confirm_alone(it)
                results[it.id] = {"outcome": "accept" if ok else "reject", "errors": errors, "alone": True}
        # the mirror image of the in-context rebuild above: a batch verdict "reject" may also come from state which an
        # *earlier* expansion of the batch left behind.  A sample of the batch-rejected items is rebuilt alone; alone
        # they must be rejected too (the sample is spread evenly over the list; which items depends on the list length).
        k = 4 if self.tier == "quick" else 16
        cand = [it for it in rej if results.get(it.id, {}).get("outcome") == "reject" and not results[it.id]["alone"]]
        self.reject_sample_alone = 0
        if cand:
            step = max(1, len(cand) // k)
            for it in cand[(len(items) % step)::step][:k]:
                ok, errors = self.confirm_alone(it, cmd=reject_cmd)
                self.reject_sample_alone += 1
                if ok:
                    results[it.id] = {"outcome": "accept", "errors": [], "alone": True, "batch_only_reject": True}
                else:
                    results[it.id]["alone"] = True
        for cid, errs in control_failed.items():
            results.setdefault(cid, {"outcome": "unknown", "errors": [], "alone": False})
            results[cid]["control_failed"] = True
            results[cid]["control_errors"] = errs
        return results

    def confirm_alone(self, it: Item, cmd="build", context=()):
        """build the item in a crate of its own; with `context` (the items which preceded it in its batch crate)
        the crate holds those first and only errors attributed to the item itself count"""
        iso = os.path.join(WORK, "iso-%s-%s-%06d" % (self.name, self.tier, it.id))
        shutil.rmtree(iso, ignore_errors=True)
        try:
            emit.emit_workspace(iso, ["one"])
            cdir = os.path.join(iso, "one")
            deps = {"enum-tools": dep_enum_tools()}
            if "monitor_core" in it.deps:
                deps["monitor_core"] = "{ path = \"%s/monitor_core\" }" % VERIF
            for lib in self.libs:
                if lib in it.deps:
                    deps[lib] = self._lib_dep(lib)
            write_if_changed(os.path.join(cdir, "Cargo.toml"), crate_manifest("one", deps))
            lib = "#![allow(dead_code, unused_imports, unused_variables, unreachable_patterns, non_camel_case_types, non_upper_case_globals)]\n"
            for x in list(context) + [it]:
                lib += "pub mod k%06d;\n" % x.id
                for lname in self.libs:
                    if lname in x.deps:
                        deps[lname] = self._lib_dep(lname)
                if "monitor_core" in x.deps:
                    deps["monitor_core"] = "{ path = \"%s/monitor_core\" }" % VERIF
                write_if_changed(os.path.join(cdir, "src", "k%06d.rs" % x.id), x.text)
            if it.meta.get("no_std"):
                lib = "#![no_std]\n" + lib
            write_if_changed(os.path.join(cdir, "Cargo.toml"), crate_manifest("one", deps))
            write_if_changed(os.path.join(cdir, "src", "lib.rs"), lib)
            rc, msgs, err, secs = build.run_cargo(
                iso, [cmd, "--offline", "-p", "one"],
                env={"CARGO_TARGET_DIR": os.path.join(self.root, "target-iso")}, timeout=3600)
            self.secs += secs
            errors = build.compiler_errors(msgs)
            if rc != 0 and not errors:
                raise Inconclusive("isolated build of item %d failed without diagnostics: %s" % (it.id, err[-2000:]))
            if context:
                by_case, _ = build.attribute(errors)
                mine = by_case.get(it.id, [])
                return not mine, mine
            return rc == 0, errors
        finally:
            shutil.rmtree(iso, ignore_errors=True)

    def hooklog(self):
        # only crates emitted by this run (records of crates from earlier runs / seeds may linger in the store)
        return build.load_hook(self.root, crates=self.current_crates | set(self.libs))
