"""Offline invariant checker for the macro's expansion event log, against the generator's model."""
from __future__ import annotations

import re


def check_record(case, rec) -> list:
    """-> list of error strings; rec = {'begin':..,'resolved':..,'end':..}"""
    errs = []
    res = rec.get("resolved")
    if res is None:
        return ["no `resolved` record (expansion aborted before generation)"]
    d = case.decl
    model = [(v.value, v.ident, v.name) for v in d.sorted()]
    got = [(v[0], v[1], v[2]) for v in res["values"]]
    def same(a, b):
        # an open model name (raw identifier) matches either spelling
        if b[2].startswith("\x01"):
            return a[0] == b[0] and a[1] == b[1] and a[2] in (b[2][1:], b[2][3:])
        return a == b

    if len(got) != len(model) or not all(same(a, b) for a, b in zip(got, model)):
        k = next((i for i, (a, b) in enumerate(zip(got, model)) if not same(a, b)), min(len(got), len(model)))
        errs.append("macro's sorted (discriminant, ident, name) list differs from the model at index %d: macro %r, model %r"
                    % (k, got[k] if k < len(got) else None, model[k] if k < len(model) else None))
    vals = [v[0] for v in res["values"]]
    if any(a >= b for a, b in zip(vals, vals[1:])):
        errs.append("values not strictly ascending")
    if res["min_key"] != model[0][0] or res["max_key"] != model[-1][0]:
        errs.append("min_key/max_key = %s/%s, model %s/%s" % (res["min_key"], res["max_key"], model[0][0], model[-1][0]))
    if res["num_values"] != len(model):
        errs.append("num_values = %s, model %s" % (res["num_values"], len(model)))
    runs = d.runs()
    if res["ranges"] is None:
        if len(runs) != 1:
            errs.append("macro says gapless, model has runs %r" % (runs[:4],))
    else:
        if [tuple(r) for r in res["ranges"]] != runs:
            errs.append("value_ranges = %r, model %r" % (res["ranges"][:4], runs[:4]))
        if len(runs) == 1:
            errs.append("macro says with-holes, model is gapless")
    if res["repr"] != d.repr:
        errs.append("repr = %s, declared %s" % (res["repr"], d.repr))
    for f, st in res["features"].items():
        if st["enabled"] and st["mode"] == "auto":
            errs.append("feature %s enabled but still in auto mode after resolution" % f)
    # requested features are enabled with the requested name / vis / mode
    cfg = case.cfg
    for f, p in cfg.feats.items():
        st = res["features"].get(f)
        if st is None:
            continue
        if not st["enabled"]:
            errs.append("requested feature %s not enabled" % f)
        if "name" in p and st["name"] != p["name"]:
            errs.append("feature %s: name %r, requested %r" % (f, st["name"], p["name"]))
        if "vis" in p and st["vis"] != p["vis"]:
            errs.append("feature %s: vis %r, requested %r" % (f, st["vis"], p["vis"]))
        if p.get("mode", "auto") != "auto" and st["mode"] != p["mode"]:
            errs.append("feature %s: mode %r, requested %r" % (f, st["mode"], p["mode"]))
    # items the user did not request are private and __-named
    for f, st in res["features"].items():
        if f in cfg.feats or not st["enabled"] or not st["name"]:
            continue
        # the helper's *name* is free ("may change at any time"); only its privacy is promised
        if st["vis"] != "":
            errs.append("helper %s generated as %r with vis %r (helpers must be private)" % (f, st["name"], st["vis"]))
    return errs


PUB_ITEM = re.compile(r"\b(pub(?:\s*\(\s*[^)]*\))?)\s+(const\s+fn|fn|const|struct)\s+([A-Za-z_][A-Za-z0-9_]*)")
ANY_ITEM = re.compile(r"(?<![A-Za-z0-9_])(const\s+fn|fn|const|struct)\s+([A-Za-z_][A-Za-z0-9_]*)\s*(?:\(|:|\{|<)")


def public_surface(output: str):
    """-> set of (vis, kind, name) of items emitted with a non-inherited visibility"""
    out = set()
    for m in PUB_ITEM.finditer(output):
        vis = re.sub(r"\s+", "", m.group(1))
        kind = "fn" if "fn" in m.group(2) else m.group(2)
        out.add((vis, kind, m.group(3)))
    return out
