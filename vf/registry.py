"""property id -> driver"""


def run(prop: str, tier: str, seed: int) -> int:
    if prop in ("C01", "C03", "C04", "C05", "C06", "C07", "C08"):
        from .props import runtime
        return runtime.run(prop, tier, seed)
    if prop == "C02":
        from .props import c02
        return c02.run(tier, seed)
    if prop in ("C09", "C16", "C18"):
        from .props import rel
        return rel.run(prop, tier, seed)
    if prop == "C10":
        from .props import c10
        return c10.run(tier, seed)
    if prop == "C11":
        from .props import c11
        return c11.run(tier, seed)
    if prop in ("C12", "C13", "C14"):
        from .props import reject
        return reject.run(prop, tier, seed)
    if prop == "C15":
        from .props import c15
        return c15.run(tier, seed)
    if prop == "C17":
        from .props import c17
        return c17.run(tier, seed)
    if prop == "C19":
        from .props import c19
        return c19.run(tier, seed)
    print("unknown property", prop)
    return 3
