"""writes MANIFEST.json from the table below (python3 -m vf.manifest_gen)"""
import json
import os
import subprocess

VERIF = os.path.dirname(os.path.dirname(os.path.abspath(__file__)))

LEVEL = {
    "C01": ("reference-model monitor over try_from/TryFrom/into/Into events: exhaustive over all values of 8/16-bit reprs, boundary + sampled for wider ones, on several hundred generated declarations (all 12 reprs, negative / limit / multi-run shapes)", "runtime monitor: reference-model oracle on native debug-UB build"),
    "C02": ("Miri (UB interpreter) on a selection covering every unsafe-site class, rustc debug-build UB checks + discriminant-membership monitor on every event of the whole corpus, valgrind memcheck on a release build in both tiers; configurations the documentation forbids because they would be unsound (range mode on holes) are probed: refused, or executed under the same checks", "Miri + debug UB checks + memcheck + membership monitor"),
    "C03": ("reference-model monitor: every variant of every generated declaration rendered through as_str / Display / Debug / IntoStr in every mode and compared byte-wise with the model name", "runtime monitor: reference-model oracle"),
    "C04": ("reference-model monitor over from_str/FromStr on names, single-edit neighbours, permutations of a name's characters, cross-overs of two names, identifiers of renamed variants, empty strings, and a volume stage of random non-names (reach: false-accept rates down to about 1e-5 per case in the quick tier, 1e-7 on large enums in the thorough tier); fn vs trait agreement; cross-mode agreement through the C09 transcripts", "runtime monitor: reference-model oracle"),
    "C05": ("reference-model monitor over MIN/MAX/next/next_back for every variant plus bounded walks, on shapes with runs at the type limits, singletons, one-wide gaps, i64 extremes and all declaration orders", "runtime monitor: reference-model oracle"),
    "C06": ("online checker: two-cursor iterator automaton compared with iter() on exhaustive front/back interleavings (small n), fixed and seeded random histories incl. nth/nth_back beyond the end and every consuming operation, in every iterator mode", "runtime monitor: iterator automaton over operation histories"),
    "C07": ("online checker: range(a, b) against the model slice for all ordered pairs (small n) or boundary + sampled pairs, several histories per pair, in every mode that supports range", "runtime monitor: iterator automaton over operation histories"),
    "C08": ("online checker: names() against the model name list under the same histories, iter().zip(names()) against (variant, name) pairs", "runtime monitor: iterator automaton over operation histories"),
    "C09": ("relational monitor: transcripts of every item compared across the mode product / auto-steering configurations of one declaration; hook log must show every outcome of auto resolution", "runtime monitor: differential transcripts + expansion event log"),
    "C16": ("compile-outcome + relational monitor: the same derive in plain, no_implicit_prelude, hostile-shadowing, no_std and no_std+hostile contexts must build and give identical transcripts", "runtime monitor: differential transcripts across contexts"),
    "C10": ("compile-outcome monitor + runtime monitors: configuration sweep (every atom alone, pairs, triples, all-but-one, random subsets with random name/vis/struct_name parameters and splits) on 6 enum shapes built with cargo build and an adapter using every enabled item; failures recompiled alone; runtime monitors run over every case; split-vs-joined expansion text compared in the hook log", "runtime monitor over rustc verdicts + expansion event log + runtime oracles"),
    "C11": ("compile-outcome monitor + three-way discriminant agreement (generator model = compiler `v as repr` = macro's values in the hook log and observable into/try_from/MIN/MAX/iteration order) over the literal-spelling / implicit-discriminant / limit / size / foreign-attribute catalogue for each repr", "runtime monitor over rustc verdicts + expansion event log + runtime oracles"),
    "C12": ("compile-outcome monitor: mutation catalogue of out-of-domain declarations, each must fail to compile (batch screen, every apparent acceptance recompiled alone) while its control copy without the derive compiles", "runtime monitor over rustc verdicts (two-stage, control copies)"),
    "C13": ("compile-outcome monitor: catalogue of invalid enum-level and variant-level attributes on a gapless and a with-holes enum, each must fail to compile (two-stage confirmation)", "runtime monitor over rustc verdicts (two-stage)"),
    "C14": ("compile-outcome monitor: all permutations of small enums x sorted flags, accept/reject compared with the model's strictly-ascending verdict (raw-identifier variants ordered by the spelling the string items are observed to answer), should-fail items with control copies; an item rejected only when expanded after other enums of its crate is reported", "runtime monitor over rustc verdicts against a reference model"),
    "C15": ("privacy / name-resolution probes (positive must compile, negative must fail, each negative an item of its own) from the defining module, its parent, the crate root and an external crate for every enum visibility and item vis/name/struct_name (the iterator structs in every iterator mode), plus a scan of the hook log's expansion text for every non-private fn/const/struct", "runtime monitor over rustc verdicts + expansion event log"),
    "C17": ("expansion event log compared across repeated modules (fresh RandomState per HashMap) and fresh rustc processes (fresh per-process seeds) which expand the declarations in rotated orders: one distinct output text per input text, and the same accept / reject outcome in every process", "runtime monitor: expansion event log across processes"),
    "C19": ("compile-time ascription probes (const contexts, fn-pointer coercions, Result<E, ()> and associated-type ascriptions, iterator trait bounds) for every mode / shape case", "runtime monitor over rustc verdicts of ascription probes"),
    "C18": ("relational monitor: transcripts compared across permuted declaration orders and every admissible repr of one value->name map", "runtime monitor: differential transcripts"),
}

NOTE = "held on the executions observed: sampled declarations/configurations with a complete oracle per execution; trusted: rustc, Miri, the generator's model (cross-checked against `v as repr`), the adapter glue"

PENDING = {}


def main():
    repo = os.environ.get("VERIF_REPO", "/repo")
    commits = subprocess.run(["git", "-C", repo, "log", "--format=%h %s", "--grep=^verif:"],
                             capture_output=True, text=True).stdout.strip().splitlines()
    checks = []
    for pid in sorted(LEVEL):
        text, tech = LEVEL[pid]
        checks.append({
            "property_id": pid,
            "quick_cmd": "./check %s --tier quick" % pid,
            "thorough_cmd": "./check %s --tier thorough" % pid,
            "evidence_file": "/verif/evidence/%s.json" % pid,
            "replay_cmd_template": "./check replay {path}",
            "engine": "vf",
            "level_claimed": {"category": "exploration", "text": text, "design_ref": "DESIGN.md section 4 (%s)" % pid},
            "level_note": NOTE,
            "technique": tech,
        })
    m = {
        "version": 1,
        "setup_cmd": "./setup.sh",
        "hooks": {
            "guard": "cargo feature verif_hooks",
            "enable": "harness crates depend on enum-tools = { path = \"/repo\", features = [\"verif_hooks\"] }; the log is written when ENUM_TOOLS_VERIF_LOG names a directory",
            "baseline_off_cmd": "cd /repo && cargo test --workspace --no-fail-fast --offline",
            "source_commits": [c.split()[0] for c in commits],
            "add_only": True,
        },
        "engines": [
            {"name": "vf", "path": "/verif/vf", "serves_properties": sorted(LEVEL),
             "kind_free_text": "python3 workload generators + cargo/Miri/valgrind runners + offline oracles; Rust monitors in /verif/monitor (reference model, iterator automaton, transcripts) linked with generated harness crates"},
        ],
        "checks": checks,
        "not_applicable": [{"property_id": k, "reason": v} for k, v in sorted(PENDING.items()) if k not in LEVEL],
        "notes": "Runtime monitoring: see DESIGN.md. KNOWN_FINDINGS.txt lists fixed defects and open findings. VERIF_REPO overrides the tree under test (default /repo).",
    }
    with open(os.path.join(VERIF, "MANIFEST.json"), "w") as fh:
        json.dump(m, fh, indent=1)
        fh.write("\n")


if __name__ == "__main__":
    main()
