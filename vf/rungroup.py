"""Group `run`: build the runtime corpus and execute the monitors over it in shards
(native debug-UB build, Miri, or valgrind), with abort attribution."""
from __future__ import annotations

import json
import os
import re
import shutil
import subprocess
import time
from concurrent.futures import ThreadPoolExecutor

from . import build, corpus, emit
from .build import Inconclusive, WORK

NPROC = os.cpu_count() or 8


class RunGroup:
    def __init__(self, tier: str, seed: int, name="run", planner=None):
        self.tier = tier
        self.seed = seed
        self.name = name
        self.planner = planner
        self._plan = None
        self.root = os.path.join(WORK, "%s-%s" % (name, tier))
        self.cases = {}      # id -> Case (built)
        self.dropped = {}    # id -> [error dict]  (did not compile)
        self.crate_of = {}   # id -> crate
        self.build_s = 0.0
        self.hook = None

    # -- corpus ------------------------------------------------------------------------
    def plan(self):
        if self._plan is None:
            self._plan = self.planner(self.tier, self.seed) if self.planner else self._default_plan()
        return self._plan

    def _default_plan(self):
        fixed, large, rand = corpus.run_corpus(self.tier, self.seed)
        per = 40 if self.tier == "quick" else 110
        crates = corpus.split_crates("cfix", fixed, per)
        crates += corpus.split_crates("clarge", large, 2)
        crates += corpus.split_crates("crand", rand, per)
        return crates

    # -- build -------------------------------------------------------------------------
    def prepare(self):
        """emit + build; cases which do not compile are dropped (and remembered)"""
        os.makedirs(self.root, exist_ok=True)
        build.prepare_root(self.root)
        crates = self.plan()
        self.dropped = {}
        t0 = time.time()
        for rnd in range(8):
            live = []
            for name, ns, cs in crates:
                cs = [c for c in cs if c.id not in self.dropped]
                if cs:
                    live.append((name, ns, cs))
            emit.emit_workspace(self.root, ["harness"] + [n for n, _, _ in live])
            for name, ns, cs in live:
                emit.emit_case_crate(self.root, name, cs, no_std=ns)
            emit.emit_harness(self.root, [n for n, _, _ in live])
            os.makedirs(os.path.join(self.root, "hooklog"), exist_ok=True)
            rc, msgs, err, secs = build.run_cargo(
                self.root, ["build", "--offline", "--keep-going", "-p", "harness"],
                env={"ENUM_TOOLS_VERIF_LOG": os.path.join(self.root, "hooklog")}, timeout=5400)
            build.collect_hooklog(self.root)
            if rc == 0:
                self.cases = {c.id: c for _, _, cs in live for c in cs}
                self.crate_of = {c.id: n for n, _, cs in live for c in cs}
                self.build_s = time.time() - t0
                return
            errors = build.compiler_errors(msgs)
            by_case, rest = build.attribute(errors)
            if not by_case:
                raise Inconclusive("harness build failed and no error could be attributed to a case:\n%s\n%s"
                                   % ("\n".join(e["rendered"] for e in rest[:5]), err[-3000:]))
            for cid, errs in by_case.items():
                self.dropped[cid] = errs
        raise Inconclusive("harness still does not build after dropping %d cases" % len(self.dropped))

    def all_planned(self):
        return {c.id: c for _, _, cs in self.plan() for c in cs}

    def hooklog(self):
        if self.hook is None:
            # only the crates of this plan: the store may still hold records of crates of an earlier seed
            self.hook = build.load_hook(self.root, crates=set(self.crate_of.values()))
        return self.hook

    def binary(self):
        return os.path.join(self.root, "target", "debug", "harness")

    # -- isolated confirmation of a dropped case -----------------------------------------
    def confirm_alone(self, case, hooks=True, context=()):
        """build the case in a crate of its own (after `context`: the cases which precede it in its corpus crate);
        -> (compiles?, errors attributed to the case or, alone, all errors)"""
        iso = os.path.join(WORK, "iso-%s-%s-%06d" % (self.name, self.tier, case.id))
        shutil.rmtree(iso, ignore_errors=True)
        try:
            emit.emit_workspace(iso, ["one"])
            emit.emit_case_crate(iso, "one", list(context) + [case], no_std=case.context.startswith("nostd"))
            rc, msgs, err, secs = build.run_cargo(
                iso, ["build", "--offline", "-p", "one"],
                env={"CARGO_TARGET_DIR": os.path.join(self.root, "target-iso")}, timeout=3600)
            errors = build.compiler_errors(msgs)
            if rc != 0 and not errors:
                raise Inconclusive("isolated build of case %d failed without diagnostics: %s" % (case.id, err[-2000:]))
            if context:
                by_case, _ = build.attribute(errors)
                mine = by_case.get(case.id, [])
                return not mine, mine
            return rc == 0, errors
        finally:
            shutil.rmtree(iso, ignore_errors=True)

    def confirm_dropped(self, case):
        """A dropped case is rebuilt alone; if it compiles alone it is rebuilt once more after the cases which
        precede it in its corpus crate (the derive must not carry state from one expansion to the next: a user's
        crate holds many enums).  -> (compiles?, errors, how) with how in {"alone", "after-other-enums", "flaky"}"""
        ok, errors = self.confirm_alone(case)
        if not ok:
            return False, errors, "alone"
        before = []
        for name, ns, cs in self.plan():
            ids = [c.id for c in cs]
            if case.id in ids:
                before = cs[:ids.index(case.id)]
                break
        if not before:
            return True, [], "flaky"
        ok2, errors2 = self.confirm_alone(case, context=before)
        if ok2:
            return True, [], "flaky"
        return False, errors2, "after-other-enums"

    # -- run ---------------------------------------------------------------------------
    def run(self, props, budget, mode="native", only=None, sets=None, nshards=None,
            timeout=3600, tag=None, case_timeout=None):
        """-> (reports, aborts) ; reports: list of dicts, aborts: list of {case, prop, how, output}"""
        tag = tag or ("%s-%s" % (mode, "_".join(props)))
        out = os.path.join(self.root, "out", tag)
        shutil.rmtree(out, ignore_errors=True)
        os.makedirs(out)
        nshards = nshards or NPROC
        if only is not None:
            only = list(only)  # order is kept: callers sort by cost so shards are balanced
            if not only:
                return [], []
            nshards = min(nshards, len(only))
        base_args = ["--out", out, "--nshards", str(nshards), "--props", ",".join(props),
                     "--budget", budget, "--seed", str(self.seed)]
        for k, v in (sets or {}).items():
            base_args += ["--set", "%s=%s" % (k, v)]
        if case_timeout:
            base_args += ["--case-timeout", str(case_timeout)]
        env = build.base_env()
        if mode == "native":
            prefix = [self.binary()]
            cwd = self.root
        elif mode == "miri":
            prefix = ["cargo", "+nightly", "miri", "run", "--offline", "-q", "-p", "harness", "--"]
            env["MIRIFLAGS"] = "-Zmiri-disable-isolation"
            env["CARGO_TARGET_DIR"] = os.path.join(self.root, "target-miri")
            cwd = self.root
        elif mode == "valgrind":
            prefix = ["valgrind", "--error-exitcode=97", "--quiet", "--track-origins=no",
                      os.path.join(self.root, "target", "release", "harness")]
            cwd = self.root
        else:
            raise ValueError(mode)

        def shard(i):
            aborts = []
            after = None
            my_only = None
            if only is not None:
                my_only = [c for k, c in enumerate(only) if k % nshards == i]
                if not my_only:
                    return aborts
            for attempt in range(200):
                args = list(base_args) + ["--shard", str(i)]
                if my_only is not None:
                    args += ["--only", ",".join(map(str, my_only))]
                if after is not None:
                    args += ["--after", str(after)]
                try:
                    p = subprocess.run(prefix + args, cwd=cwd, env=env, capture_output=True,
                                       timeout=timeout)
                except subprocess.TimeoutExpired:
                    aborts.append({"case": None, "prop": None, "how": "timeout", "shard": i,
                                   "output": "watchdog after %ds" % timeout})
                    return aborts
                marker = ""
                try:
                    marker = open(os.path.join(out, "marker-%d" % i)).read().strip()
                except OSError:
                    pass
                if p.returncode == 0 and marker == "done":
                    return aborts
                text = (p.stdout.decode("utf-8", "replace") + p.stderr.decode("utf-8", "replace"))
                m = re.match(r"(\d+) (\S+)", marker)
                if not m:
                    aborts.append({"case": None, "prop": None, "how": "harness", "shard": i,
                                   "rc": p.returncode, "output": text[-4000:]})
                    return aborts
                cid, prop = int(m.group(1)), m.group(2)
                aborts.append({"case": cid, "prop": prop, "how": classify_abort(p.returncode, text),
                               "shard": i, "rc": p.returncode, "output": text[-6000:]})
                after = cid
            return aborts

        aborts = []
        with ThreadPoolExecutor(max_workers=min(nshards, NPROC)) as ex:
            for a in ex.map(shard, range(nshards)):
                aborts.extend(a)
        reports = []
        for i in range(nshards):
            p = os.path.join(out, "report-%d.jsonl" % i)
            if os.path.exists(p):
                with open(p, encoding="utf-8") as fh:
                    for line in fh:
                        line = line.strip()
                        if line:
                            reports.append(json.loads(line))
        return reports, aborts

    def build_miri(self, timeout=3600):
        env = {"MIRIFLAGS": "-Zmiri-disable-isolation",
               "CARGO_TARGET_DIR": os.path.join(self.root, "target-miri")}
        rc, msgs, err, secs = build.run_cargo(
            self.root, ["+nightly", "miri", "run", "--offline", "-q", "-p", "harness", "--", "--list"],
            env=env, timeout=timeout, json_messages=False)
        if rc != 0:
            raise Inconclusive("miri build of the harness failed: %s" % err[-3000:])
        return secs

    def build_release(self, timeout=3600):
        rc, msgs, err, secs = build.run_cargo(
            self.root, ["build", "--offline", "--release", "-p", "harness"], timeout=timeout)
        if rc != 0:
            raise Inconclusive("release build of the harness failed: %s" % err[-3000:])
        return secs

    def transcript(self, case_id: int, item: str):
        p = subprocess.run([self.binary(), "--transcript", "%d:%s" % (case_id, item),
                            "--seed", str(self.seed)], capture_output=True, timeout=600)
        return p.stdout.decode("utf-8", "replace").splitlines()


def classify_abort(rc: int, text: str) -> str:
    if "CASE-TIMEOUT" in text:
        return "case-timeout"
    if "Undefined Behavior" in text:
        return "miri-ub"
    if "unsupported operation" in text:
        return "miri-unsupported"
    if "unsafe precondition(s) violated" in text or "trying to construct an enum from an invalid value" in text:
        return "debug-ub-check"
    if "ERROR SUMMARY" in text or rc == 97:
        return "valgrind"
    if rc < 0 or rc in (132, 134, 136, 139):
        return "signal"
    if "panicked" in text:
        return "panic-abort"
    return "exit-%s" % rc
