"""The runtime corpus (group `run`): which cases are built for a tier and seed.

Fixed parts do not depend on the seed (so their crates are not rebuilt when only the
seed changes); the random part does.
"""
from __future__ import annotations

import itertools
import random

from . import shapes
from .spec import (ALL_FEATURES, FN_FEATURES, ITER_FEATURES, ITER_MODES, REPR_ORDER, REPRS,
                   STR_MODES, TRAIT_FEATURES, Case, Config, all_features_config, legal,
                   repr_range)


class IdGen:
    def __init__(self, start=1):
        self.n = start

    def next(self):
        v = self.n
        self.n += 1
        return v


def mode_tuples(gapless: bool, with_range=True):
    """all legal (as_str, from_str, FromStr, iter) mode tuples with every feature on"""
    iters = [m for m in ITER_MODES if (gapless or m != "range")]
    if with_range:
        iters = [m for m in iters if m != "table_inline"]
    return [dict(zip(("as_str", "from_str", "FromStr", "iter"), t))
            for t in itertools.product(STR_MODES, STR_MODES, STR_MODES, iters)]


def pairwise_subset(tuples, rng: random.Random, extra=4):
    """a small subset of the mode product covering every pair of (feature, mode) values"""
    keys = ["as_str", "from_str", "FromStr", "iter"]
    need = set()
    for t in tuples:
        for a, b in itertools.combinations(keys, 2):
            need.add((a, t[a], b, t[b]))
    chosen = []
    pool = list(tuples)
    rng.shuffle(pool)
    while need:
        best, gain = None, -1
        for t in pool:
            g = sum(1 for a, b in itertools.combinations(keys, 2) if (a, t[a], b, t[b]) in need)
            if g > gain:
                best, gain = t, g
        chosen.append(best)
        for a, b in itertools.combinations(keys, 2):
            need.discard((a, best[a], b, best[b]))
    for t in rng.sample(pool, min(extra, len(pool))):
        if t not in chosen:
            chosen.append(t)
    return chosen


def cfg_all(modes, without=(), names=None, split=None) -> Config:
    cfg = all_features_config(modes)
    for f in without:
        cfg.feats.pop(f, None)
    if names:
        for f, nm in names.items():
            if f in cfg.feats:
                cfg.feats[f] = dict(cfg.feats[f], name=nm)
    cfg.split = split
    return cfg


def add_sorted(cfg: Config, decl, k: int) -> Config:
    """request the compile-time `sorted` check where the declaration satisfies it (it must
    not change anything else)"""
    vals = [v.value for v in decl.variants]
    names = [v.name.encode() for v in decl.variants]
    if k % 2 == 0 and all(a < b for a, b in zip(vals, vals[1:])):
        cfg.sorted_value = True
    if k % 3 != 1 and all(a < b for a, b in zip(names, names[1:])):
        cfg.sorted_name = True
    return cfg


def legalize(cfg: Config, decl) -> Config:
    """drop what the documentation forbids for this enum (keeps the rest)"""
    if cfg.has("iter") and cfg.mode("iter") == "range" and not decl.gapless():
        cfg.feats["iter"] = {k: v for k, v in cfg.feats["iter"].items() if k != "mode"}
    if cfg.has("range") and (not cfg.has("iter") or cfg.mode("iter") == "table_inline"):
        cfg.feats.pop("range")
    assert legal(cfg, decl) is None
    return cfg


CUSTOM_NAMES = {
    "as_str": "name_of", "from_str": "parse_name", "into": "to_prim", "MAX": "LAST", "MIN": "FIRST",
    "next": "succ", "next_back": "pred", "try_from": "from_prim", "iter": "all", "names": "all_names",
    "range": "between",
}


INDEX_SENSITIVE = {"whole_type", "i8_many_before_later", "n255_holes", "n256_gapless", "n257_holes", "gapless_from_min",
                   "gapless_to_max", "touch_min_max", "first_run_at_min", "neg_later_runs", "neg_many_runs",
                   "run_at_min_then_neg", "gapless_neg", "gapless_span0", "last_run_at_max", "narrow_limits_holes",
                   "many_runs_uneven", "many_runs_uneven_neg", "across_narrow_umax", "many_runs_40", "span_alias",
                   "span_alias_neg", "even_step_wide", "span_alias16", "gapless_pos", "two_runs", "two_runs_off", "gap1",
                   "bitflags_zero", "bitflags_zero6", "bitflags_full", "bitflags_signbit",
                   "span64_holes", "span128_neg", "span256_holes", "span448_holes"}


def catalogue_cases(ids: IdGen, tier: str, seed: int = 1):
    """every catalogue shape; quick: three reprs per shape (rotating with the seed), thorough: all reprs"""
    rng = random.Random(12345 + (seed if tier == "quick" else 0))
    cases = []
    shape_names = list(shapes.SHAPES)
    for si, sname in enumerate(shape_names):
        admissible = [r for r in REPR_ORDER if shapes.shape_values(sname, r) is not None]
        if not admissible:
            continue
        if tier == "quick":
            picks = [admissible[(si + seed) % len(admissible)], admissible[(si * 5 + 3 + seed) % len(admissible)],
                     admissible[(si * 7 + 1 + 2 * seed) % len(admissible)]]
            picks = list(dict.fromkeys(picks))
        else:
            picks = admissible
        for ri, r in enumerate(picks):
            vs = shapes.shape_values(sname, r)
            gap = len(vs) == 1 or vs[-1] - vs[0] + 1 == len(vs)
            orders = ["perm", "asc"] if tier == "quick" else ["asc", "desc", "perm"]
            order = orders[(si + ri) % len(orders)]
            spelling = ["mixed", "dec", "implicit", "hex"][(si + ri) % 4]
            renames = ["first", "none", "pool", "swap", "dups", "multibyte"][(si + 2 * ri) % 6]
            if len(vs) > 64:
                renames = ["first", "all", "pool"][(si + ri) % 3]
            seq = shapes.order_values(vs, order, rng)
            d = shapes.build_decl(r, seq, sname, spelling, renames, rng, attrs=(si + ri) % 4 == 0)
            # modes: rotate through the product, range() present unless table_inline
            tuples = mode_tuples(gap, with_range=False)
            t = tuples[(si * 7 + ri * 13) % len(tuples)]
            cfg = legalize(cfg_all(t, names=CUSTOM_NAMES if (si + ri) % 5 == 0 else None,
                                   split=[3, 5, 4] if (si + ri) % 3 == 0 else None), d)
            add_sorted(cfg, d, si + ri)
            cases.append(Case(ids.next(), d, cfg, "plain", {"part": "catalogue"}))
            if sname in INDEX_SENSITIVE:
                # index / offset arithmetic differs per iterator mode: build every mode for these shapes
                for mi, im in enumerate(m for m in ITER_MODES if gap or m != "range"):
                    tm = {"as_str": STR_MODES[(si + mi) % 3], "from_str": STR_MODES[(si + mi + 1) % 3],
                          "FromStr": STR_MODES[(si + mi + 2) % 3], "iter": im}
                    without = ("range",) if im == "table_inline" else ()
                    cases.append(Case(ids.next(), d, legalize(cfg_all(tm, without=without), d), "plain",
                                      {"part": "catalogue"}))
                # sparse feature sets: no `names`, no table iterator, so nothing else pins the tables' layout
                for sparse in ({"as_str": {"mode": "table"}, "from_str": {"mode": "table"}, "Display": {}, "IntoStr": {}},
                               {"Display": {}, "FromStr": {}, "Debug": {}},
                               {"as_str": {}, "FromStr": {"mode": "table"}, "iter": {"mode": "next_and_back"}, "range": {}},
                               {"from_str": {"mode": "table"}, "try_from": {}, "next": {}, "next_back": {}, "as_str": {"mode": "match"}}):
                    cases.append(Case(ids.next(), d, legalize(Config({k: dict(v) for k, v in sparse.items()}), d), "plain",
                                      {"part": "catalogue"}))
                continue
            if tier != "quick" or (si + ri) % 2 == 0:
                # the same declaration under a second, explicit mode tuple with range()
                tuples2 = mode_tuples(gap, with_range=True)
                t2 = tuples2[(si * 11 + ri * 5 + 1) % len(tuples2)]
                cfg2 = legalize(cfg_all(t2), d)
                cases.append(Case(ids.next(), d, cfg2, "plain", {"part": "catalogue"}))
    # raw identifiers as variant names (open model name, learned from as_str): all string items must agree
    from .spec import make_decl
    for ri, r in enumerate(["u8", "i32"] if tier == "quick" else ["u8", "i32", "i64", "u128", "isize"]):
        d = make_decl(r, [("r#type", "4", None), ("r#match", None, None), ("Plain", "1", None), ("r#fn", "9", "renamed"),
                          ("r#struct", None, None), ("r#loop", "2", None)], shape="raw_idents")
        for k, t in enumerate(({"as_str": "match", "from_str": "match", "FromStr": "table", "iter": "table"},
                               {"as_str": "table", "from_str": "table", "FromStr": "match", "iter": "next_and_back"},
                               {"as_str": "auto", "from_str": "auto", "FromStr": "auto", "iter": "auto"},
                               {"as_str": "match", "from_str": "table", "FromStr": "auto", "iter": "table_inline"})):
            without = ("range",) if t["iter"] == "table_inline" else ()
            cases.append(Case(ids.next(), d, legalize(cfg_all(t, without=without), d), "plain", {"part": "catalogue"}))
    return cases


def c09_decls(tier: str):
    """declarations whose whole configuration family is built (C09)"""
    rng = random.Random(909)
    specs = [
        # (repr, values, order, renames)   small / large w.r.t. the table_inline threshold (num*size<=8)
        ("i8", [0, 1, 2, 3], "asc", "first"),
        ("i8", [0, 9, 2, 1], "asc", "first"),
        ("i8", [-10, -5, -4, 3], "perm", "none"),
        ("u8", [1, 2, 4, 5, 6, 7, 8, 200, 255], "perm", "dups"),
        ("i16", [-3, -2, -1, 0, 1, 2], "desc", "swap"),
        ("u32", [7, 9], "asc", "none"),
        ("i16", [-9, -7, -6, 0, 2, 3, 4, 9, 11, 12, 13, 14], "perm", "multibyte"),
    ]
    if tier != "quick":
        specs += [
            ("i64", [-(1 << 63) + 1, -(1 << 63) + 2, -1, 0, (1 << 63) - 2, (1 << 63) - 1], "perm", "pool"),
            ("u64", [0, 1, 2, (1 << 63) - 1], "asc", "none"),
            ("i128", [-7, -6, -5, 100, 101], "perm", "edits"),
            ("u128", [5, 6, 7, 8, 9, 10, 11, 12, 13], "desc", "all"),
            ("isize", [-128, -127, 127, 128], "perm", "first"),
            ("usize", [0], "asc", "none"),
            ("i8", [-128, -127, -126, 127], "perm", "none"),
            ("i8", list(range(-128, 10)) + list(range(12, 20)), "asc", "first"),
            ("u8", list(range(0, 256)), "asc", "first"),
            ("i16", [-32768, -32767, 0, 32766, 32767], "perm", "swap"),
            ("u16", list(range(10, 300)), "perm", "all"),
            ("i32", [-20, -19, -10, -9, -8, 1, 2, 3, 40], "perm", "dups"),
            ("u8", [3], "asc", "first"),
            ("i8", [-1, 0], "desc", "none"),
            ("i16", list(range(-130, 140, 3)), "perm", "pool"),
            ("u32", [0, 1, 2, 3, 4, 5, 6, 7, 8, 9, 10, 11, 12], "rot", "first"),
            ("i64", [-5, -3, -1, 1, 3, 5], "asc", "swap"),
            ("u16", [65533, 65534, 65535], "desc", "none"),
        ]
    out = []
    for i, (r, vs, order, renames) in enumerate(specs):
        seq = shapes.order_values(sorted(vs), order, rng)
        d = shapes.build_decl(r, seq, "c09_%02d" % i, "dec" if i % 2 else "mixed", renames, rng)
        out.append(d)
    return out


def c09_cases(ids: IdGen, tier: str):
    rng = random.Random(99)
    cases = []
    for di, d in enumerate(c09_decls(tier)):
        gap = d.gapless()
        group = "c09:%s" % d.key()
        tuples = mode_tuples(gap, with_range=True)
        tuples_inline = [t for t in mode_tuples(gap, with_range=False) if t["iter"] == "table_inline"]
        if tier == "quick":
            tuples = pairwise_subset(tuples, rng, extra=3)
            tuples_inline = pairwise_subset(tuples_inline, rng, extra=0)[:4]
        for t in tuples:
            cfg = legalize(cfg_all(t), d)
            cases.append(Case(ids.next(), d, cfg, "plain", {"part": "c09", "c09": group}))
        for t in tuples_inline:
            cfg = legalize(cfg_all(t, without=("range",)), d)
            cases.append(Case(ids.next(), d, cfg, "plain", {"part": "c09", "c09": group}))
        # auto steering: what auto resolves to depends on the co-enabled features
        steer = []
        strs = ["as_str", "from_str", "FromStr"]
        for k in range(1, 4):
            for sub in itertools.combinations(strs, k):
                for extra in ((), ("names",), ("iter",), ("iter", "range"), ("names", "iter", "range")):
                    steer.append(tuple(sub) + extra)
        steer += [("iter",), ("iter", "range"), ("iter", "from_str"), ("iter", "FromStr", "names")]
        if tier == "quick":
            steer = rng.sample(steer, 10) + [("iter",), ("iter", "range")]
        for feats in steer:
            cfg = Config({f: {} for f in feats})
            cases.append(Case(ids.next(), d, legalize(cfg, d), "plain", {"part": "c09", "c09": group}))
            # the same, with one neighbour forced to table mode (steers table sharing)
            if "iter" in feats and not gap:
                cfg2 = Config({f: {} for f in feats})
                cfg2.feats["from_str"] = {"mode": "table"}
                cases.append(Case(ids.next(), d, legalize(cfg2, d), "plain", {"part": "c09", "c09": group}))
    return cases


def c18_cases(ids: IdGen, tier: str):
    """the same value->name map under permuted declaration order and other reprs"""
    rng = random.Random(1818)
    sets = [
        ([0, 1, 2, 3], "first"),
        ([0, 1, 2, 9], "first"),
        ([1, 2, 3, 10, 11, 50, 100, 101, 102, 127], "swap"),
        ([5], "none"),
        ([0, 2, 4, 6, 8], "dups"),
        ([-10, -5, -4, 3], "none"),
        # gapless sets touching one repr's limit but not another's; > 128 variants; i64::MAX not declared last
        ([125, 126, 127], "none"),
        ([253, 254, 255], "first"),
        ([-128, -127, -126], "none"),
        (list(range(-100, 101)), "all"),
        ([-1, 0, (1 << 63) - 1], "none"),
        ([-(1 << 63), 5, 6], "first"),
    ]
    if tier != "quick":
        sets += [
            ([-128, -127, 0, 126, 127], "first"),
            ([-3, -2, -1], "swap"),
            (list(range(0, 60)), "all"),
            (list(range(100, 120)) + list(range(125, 128)), "pool"),
            ([0, 255], "none"),
            ([-32768, 32767], "none"),
            ([0, 65535], "first"),
            (list(range(-20, 20, 2)), "edits"),
            ([-1], "first"),
            ([-(1 << 31), -1, 0, (1 << 31) - 1], "none"),
            ([0, (1 << 32) - 1, 1 << 32], "first"),
            ([-(1 << 63) + 1, -(1 << 63) + 2, (1 << 63) - 1], "none"),
            (list(range(-70, 70)), "all"),
            ([1, 3, 4, 6, 7, 8, 10, 11, 12, 13], "swap"),
            ([-9, -8, -1, 0, 1, 8, 9], "dups"),
            (list(range(0, 300, 7)), "pool"),
            ([-100, -99, -98, -50, -49, -1], "first"),
            ([2, 3], "none"),
            ([127], "none"),
            ([-128], "first"),
            (list(range(250, 256)), "none"),
            (list(range(-5, 6)), "edits"),
            ([0, 1, 3, 7, 15, 31, 63, 127], "swap"),
            ([-64, -32, -16, -8, -4, -2, -1], "none"),
        ]
    cases = []
    for si, (vs, renames) in enumerate(sets):
        vs = sorted(vs)
        reprs = [r for r in REPR_ORDER
                 if repr_range(r)[0] <= vs[0] and vs[-1] <= repr_range(r)[1]]
        if tier == "quick":
            reprs = [reprs[0]] + [reprs[(si + 1) % len(reprs)], reprs[-1 - (si % 3)]]
            reprs = list(dict.fromkeys(reprs))
        lo = max(repr_range(r)[0] for r in reprs)
        hi = min(repr_range(r)[1] for r in reprs)
        # names are attached to values, not to positions: build the asc declaration first
        base = shapes.build_decl(reprs[0], vs, "c18_%02d" % si, "dec", renames, rng)
        name_of = {v.value: (v.ident, v.rename) for v in base.variants}
        group = "c18:%02d:%s" % (si, base.value_map_key())
        orders = ["asc", "desc", "perm", "perm"] if tier != "quick" else ["asc", "desc", "perm"]
        gap = base.gapless()
        tuples = mode_tuples(gap, with_range=True)
        t = tuples[(si * 17 + 3) % len(tuples)]
        for r in reprs:
            for oi, order in enumerate(orders):
                if tier == "quick" and r != reprs[0] and oi == 1:
                    continue
                seq = shapes.order_values(vs, order, rng)
                items = [[name_of[v][0], shapes.spell(v, r, "dec", rng), name_of[v][1]] for v in seq]
                from .spec import make_decl
                d = make_decl(r, items, shape="c18_%02d" % si)
                cfg = legalize(cfg_all(t), d)
                add_sorted(cfg, d, oi + si)
                c = Case(ids.next(), d, cfg, "plain", {"part": "c18", "c18": group},
                         probe_lo=lo, probe_hi=hi)
                cases.append(c)
                if oi == 0 or tier != "quick":
                    # a second, all-table configuration: index arithmetic in the repr's own width
                    t2 = {"as_str": "table", "from_str": "table", "FromStr": "table",
                          "iter": "table" if (si + oi) % 2 else "next_and_back"}
                    cases.append(Case(ids.next(), d, legalize(cfg_all(t2), d), "plain", {"part": "c18", "c18": group},
                                      probe_lo=lo, probe_hi=hi))
    return cases


def c16_cases(ids: IdGen, tier: str):
    """the same declaration and configuration in every context"""
    rng = random.Random(1616)
    base = [
        ("i8", [0, 1, 2, 3], "first"),
        ("i8", [0, 9, 2, 1], "first"),
        ("i16", [-10, -5, -4, 3], "none"),
        ("u8", [250, 251, 252, 253, 254, 255], "swap"),
        ("u32", [5, 6, 7, 8], "none"),
        ("i64", [-3, -2, -1, 0, 1], "first"),
        ("u128", [1, 2, 3, 9], "none"),
        ("i16", [-40, -39, -30, -20, -19, -18, -7, -1, 0, 1, 5, 9, 11, 12, 20, 30, 31, 40, 50, 60, 70, 71], "none"),
    ]
    if tier != "quick":
        base += [
            ("u64", [0, 1, (1 << 63) - 1], "none"),
            ("i128", [-2, -1, 0, 5, 6], "dups"),
            ("usize", list(range(0, 40)), "all"),
            ("isize", [-1, 1], "none"),
            ("u16", [1, 2, 3, 1000, 1001], "pool"),
            ("i32", [-(1 << 31), -(1 << 31) + 1, (1 << 31) - 1], "none"),
        ]
    contexts = ["plain", "noprelude", "hostile", "nostd", "nostd_hostile"]
    cases = []
    for bi, (r, vs, renames) in enumerate(base):
        seq = shapes.order_values(sorted(vs), "perm", rng)
        d = shapes.build_decl(r, seq, "c16_%02d" % bi, "mixed", renames, rng)
        # the enum's own name is part of the scope too: B and F are what the generic parameters of the forwarded
        # fold / rfold are called (round 6, W16a: a bound written with the bare enum identifier)
        gap = d.gapless()
        tuples = mode_tuples(gap, with_range=True) + \
            [t for t in mode_tuples(gap, with_range=False) if t["iter"] == "table_inline"]
        if tier == "quick":
            picks = pairwise_subset(tuples, rng, extra=0)[:6 if bi < 4 else 4]
        else:
            picks = pairwise_subset(tuples, rng, extra=6)
        for ti, t in enumerate(picks):
            without = ("range",) if t["iter"] == "table_inline" else ()
            cfg_key = None
            for ctx in contexts:
                cfg = legalize(cfg_all(t, without=without), d)
                cfg_key = cfg.key()
                group = "c16:%s:%s" % (d.key(), cfg_key)
                cases.append(Case(ids.next(), d, cfg, ctx, {"part": "c16", "c16": group}))
            # ... as one more context dimension: the same declaration under these names joins the group of `E`
            # (Decl.key() does not contain the name), so it must build and give the same transcripts
            if ti < 3:
                import dataclasses
                for nm in ("B", "F") if tier == "quick" else ("B", "F", "T", "I"):
                    d2 = dataclasses.replace(d, name=nm)
                    cases.append(Case(ids.next(), d2, legalize(cfg_all(t, without=without), d2), "plain",
                                      {"part": "c16", "c16": group, "enum_name": nm}))
    return cases


def large_cases(ids: IdGen, tier: str):
    rng = random.Random(4242)
    cases = []
    sizes = [(1000, "i16")] if tier == "quick" else [(1000, "i16"), (1000, "u32"), (4000, "i32"), (4000, "u64")]
    for n, r in sizes:
        lo = -300 if REPRS[r][1] else 0
        # three runs with holes
        a = list(range(lo, lo + n // 2))
        b = list(range(lo + n // 2 + 5, lo + n // 2 + 5 + n // 4))
        c = list(range(b[-1] + 2, b[-1] + 2 + n - len(a) - len(b)))
        vs = a + b + c
        seq = shapes.order_values(vs, "asc" if n > 2000 else "rot", rng)
        d = shapes.build_decl(r, seq, "large_%d" % n, "implicit", "first", rng)
        for t in ({"as_str": "table", "from_str": "table", "FromStr": "match", "iter": "table"},
                  {"as_str": "match", "from_str": "match", "FromStr": "table", "iter": "next_and_back"}):
            cfg = legalize(cfg_all(t), d)
            cases.append(Case(ids.next(), d, cfg, "plain", {"part": "large"}))
        # gapless twin
        g = list(range(lo, lo + n))
        dg = shapes.build_decl(r, shapes.order_values(g, "asc", rng), "large_gapless_%d" % n,
                               "implicit", "first", rng)
        cfg = legalize(cfg_all({"as_str": "table", "from_str": "table", "FromStr": "table", "iter": "range"}), dg)
        cases.append(Case(ids.next(), dg, cfg, "plain", {"part": "large"}))
    if tier != "quick":
        # the documented limit: 65534 variants, with the feature sets rustc digests in reasonable time
        n = 65534
        vs = list(range(0, 40000)) + list(range(40001, 40001 + n - 40000))
        d = shapes.build_decl("u32", vs, "limit_65534", "implicit", "none", rng)
        cfg = Config({f: {} for f in ("try_from", "TryFrom", "next", "next_back", "MIN", "MAX", "into", "Into")})
        cases.append(Case(ids.next(), d, cfg, "plain", {"part": "limit"}))
        dg = shapes.build_decl("i32", list(range(-30000, -30000 + n)), "limit_65534_gapless",
                               "implicit", "none", rng)
        cfg = Config({"iter": {}, "range": {}, "next": {}, "next_back": {}, "try_from": {}, "MIN": {}, "MAX": {}})
        cases.append(Case(ids.next(), dg, cfg, "plain", {"part": "limit"}))
    return cases


def random_config(decl, rng: random.Random) -> Config:
    feats = {}
    k = rng.choice([3, 6, 10, 17, 17])
    chosen = set(rng.sample(ALL_FEATURES, min(k, len(ALL_FEATURES))))
    for f in ALL_FEATURES:
        if f not in chosen:
            continue
        p = {}
        if f in ("as_str", "from_str", "FromStr"):
            m = rng.choice(STR_MODES)
            if m != "auto" or rng.random() < 0.2:
                p["mode"] = m
        if f == "iter":
            m = rng.choice(ITER_MODES)
            if m != "auto" or rng.random() < 0.2:
                p["mode"] = m
        if f in CUSTOM_NAMES and rng.random() < 0.25:
            p["name"] = CUSTOM_NAMES[f]
        if f in FN_FEATURES + ITER_FEATURES and rng.random() < 0.2:
            p["vis"] = rng.choice(["pub", "pub(crate)"])
        feats[f] = p
    cfg = Config(feats)
    cfg = legalize(cfg, decl)
    ntok = len(cfg.feature_tokens())
    if ntok > 2 and rng.random() < 0.4:
        a = rng.randint(1, ntok - 1)
        cfg.split = [a, max(1, (ntok - a) // 2)]
    return cfg


def random_cases(ids: IdGen, tier: str, seed: int):
    import os
    if os.environ.get("VERIF_NO_RANDOM"):
        # self-assessment only (tools): is a seeded change caught by the fixed part of the corpus alone?
        return []
    rng = random.Random(seed * 7919 + 17)
    n = 192 if tier == "quick" else 3000
    cases = []
    for i in range(n):
        r = REPR_ORDER[(i + seed) % len(REPR_ORDER)] if i < 24 else rng.choice(REPR_ORDER)
        d = shapes.random_decl(r, rng, max_n=24 if rng.random() < 0.9 else 90)
        cfg = random_config(d, rng)
        add_sorted(cfg, d, i)
        ctx = rng.choice(["plain", "plain", "noprelude", "hostile", "nostd"])
        cases.append(Case(ids.next(), d, cfg, ctx, {"part": "random"}))
    return cases


def run_corpus(tier: str, seed: int):
    """-> list of (crate name, no_std?, cases); ids are stable for the fixed parts"""
    parts = []
    fixed = []
    fixed += catalogue_cases(IdGen(1), tier, seed)
    fixed += c09_cases(IdGen(10001), tier)
    fixed += c18_cases(IdGen(30001), tier)
    fixed += c16_cases(IdGen(40001), tier)
    large = large_cases(IdGen(50001), tier)
    rand = random_cases(IdGen(60001), tier, seed)
    return fixed, large, rand


def split_crates(prefix: str, cases: list, per_crate: int):
    """-> [(crate, no_std, cases)] ; no_std cases get their own crates"""
    std = [c for c in cases if not c.context.startswith("nostd")]
    nostd = [c for c in cases if c.context.startswith("nostd")]
    out = []
    for tag, lst, ns in (("", std, False), ("n", nostd, True)):
        for i in range(0, len(lst), per_crate):
            out.append(("%s%s_%02d" % (prefix, tag, i // per_crate), ns, lst[i:i + per_crate]))
    return out


# ---------------------------------------------------------------------------------------
# group `cfg` (C10): the configuration sweep

MODELESS = ["Debug", "Display", "IntoStr", "Into", "into", "MAX", "MIN", "next", "next_back", "try_from",
            "TryFrom", "names", "range"]
ATOMS = [(f, None) for f in MODELESS] + \
        [(f, m) for f in ("as_str", "from_str", "FromStr") for m in STR_MODES] + \
        [("iter", m) for m in ITER_MODES]
# documented in the iter section (src/lib.rs) although no such mode exists
DOC_ONLY_ATOMS = [("iter", "match")]


def cfg_shapes():
    rng = random.Random(1010)
    specs = [
        ("gapless_small", "u8", [0, 1, 2, 3], "asc", "first"),
        ("gapless_large", "i32", list(range(-5, 15)), "perm", "pool"),
        ("holes_small", "u8", [0, 1, 5], "perm", "none"),
        ("holes_large", "i16", [-300, -299, -298, -1, 0, 1, 2, 50, 51, 1000, 1001, 32767], "perm", "dups"),
        ("holes_negative_runs", "i8", [-10, -5, -4, 3, 4], "desc", "first"),
        ("holes_at_type_min", "i8", [-128, -127, 0, 127], "perm", "none"),
        # sizes above the thresholds an optimisation might introduce (16 / 32 variants, 8 runs)
        ("holes_40", "i16", [v for v in range(-20, 40) if v % 7 not in (0, 3)][:40], "perm", "pool"),
        ("gapless_40", "u8", list(range(200, 240)), "perm", "none"),
        ("holes_wide", "u64", [0, 1, 2, (1 << 32) - 1, 1 << 32, (1 << 32) + 1, (1 << 63) - 2, (1 << 63) - 1], "desc", "swap"),
    ]
    out = []
    # (enum names: single letters are what generic parameters of generated methods would be called)
    enum_names = ["E", "B", "F", "T", "Kind", "I", "R", "E", "S"]
    for k, (name, r, vs, order, renames) in enumerate(specs):
        seq = shapes.order_values(sorted(vs), order, rng)
        d = shapes.build_decl(r, seq, "cfg_" + name, "dec", renames, rng)
        d.name = enum_names[k % len(enum_names)]
        out.append(d)
    return out


def config_from_atoms(atoms, decl, explicit_auto=False):
    """-> Config or None when the atom set is contradictory / not allowed by the documentation"""
    feats = {}
    for f, m in atoms:
        if f in feats:
            return None
        p = {}
        if m is not None and (m != "auto" or explicit_auto):
            p["mode"] = m
        feats[f] = p
    if "range" in feats and "iter" not in feats:
        feats["iter"] = {}
    cfg = Config(feats)
    if legal(cfg, decl) is not None:
        return None
    return cfg


def decorate(cfg: Config, rng: random.Random, decl):
    """random documented parameters: name, vis, struct_name; random split over attributes"""
    nested = False
    for f in list(cfg.feats):
        p = dict(cfg.feats[f])
        if f in CUSTOM_NAMES and rng.random() < 0.35:
            p["name"] = CUSTOM_NAMES[f]
        if f in FN_FEATURES + ITER_FEATURES and rng.random() < 0.35:
            p["vis"] = rng.choice(["", "pub(crate)", "pub"])
            if p["vis"] == "":
                nested = True
        if f in ("iter", "names") and rng.random() < 0.4:
            p["struct_name"] = "My" + ("Iter" if f == "iter" else "Names")
        cfg.feats[f] = p
    if rng.random() < 0.6:
        # the order in which features are listed (and so which attribute they land in) is free
        items = list(cfg.feats.items())
        rng.shuffle(items)
        cfg.feats = dict(items)
    ntok = len(cfg.feature_tokens())
    if ntok >= 2 and rng.random() < 0.5:
        a = rng.randint(1, ntok - 1)
        cfg.split = [a] if rng.random() < 0.5 else [1, a]
    return nested


def cfg_corpus(tier: str, seed: int):
    rng = random.Random(1000 + seed)
    ids = IdGen(1)
    cases = []
    decls = cfg_shapes()

    def add(decl, cfg, part, decorate_p=0.0, **tags):
        t = {"part": part}
        t.update(tags)
        if decorate_p and rng.random() < decorate_p:
            if decorate(cfg, rng, decl):
                t["nested"] = True
        cases.append(Case(ids.next(), decl, cfg, "plain", t))
        return cases[-1]

    for di, d in enumerate(decls):
        # singles (each atom alone: a missing dependency only shows when nothing else enables the helper)
        for ai, atom in enumerate(ATOMS + DOC_ONLY_ATOMS):
            cfg = config_from_atoms([atom], d, explicit_auto=(ai + di) % 2 == 0)
            if cfg is not None:
                add(d, cfg, "single", atoms=[atom])
        # pairs
        pairs = list(itertools.combinations(ATOMS, 2))  # all pairs in both tiers: the build is cheap
        for a, b in pairs:
            cfg = config_from_atoms([a, b], d)
            if cfg is not None:
                add(d, cfg, "pair", decorate_p=0.25, atoms=[a, b])
        # triples
        triples = list(itertools.combinations(ATOMS, 3))
        for t in (rng.sample(triples, 20) if tier == "quick" else triples):
            cfg = config_from_atoms(list(t), d)
            if cfg is not None:
                add(d, cfg, "triple", decorate_p=0.3, atoms=list(t))
        # all-but-one
        gap = d.gapless()
        tuples = mode_tuples(gap, with_range=True)
        for fi, f in enumerate(ALL_FEATURES):
            t = tuples[(fi * 7 + di) % len(tuples)]
            without = [f] + (["range"] if f == "iter" else [])
            add(d, legalize(cfg_all(t, without=without), d), "all_but_one", decorate_p=0.3)
        # random subsets with parameters
        import os
        for _ in range(0 if os.environ.get("VERIF_NO_RANDOM") else (15 if tier == "quick" else 300)):
            add(d, random_config(d, rng), "random", decorate_p=0.6)
        # adversarial custom names: every item takes the default name of another one
        swapped = {"MIN": "MAX", "MAX": "MIN", "next": "next_back", "next_back": "next", "as_str": "into", "into": "as_str",
                   "iter": "names", "names": "iter", "try_from": "from_str", "from_str": "try_from", "range": "between"}
        for k in range(2 if tier == "quick" else 6):
            t = tuples[(k * 5 + di) % len(tuples)]
            add(d, legalize(cfg_all(t, names=swapped), d), "swapped_names")
            t2 = dict(t)
            cfg = legalize(cfg_all(t2, names=swapped, without=("Into", "TryFrom", "FromStr")), d)
            cfg.feats["iter"] = dict(cfg.feats["iter"], struct_name=d.name + "Names")
            cfg.feats["names"] = dict(cfg.feats["names"], struct_name=d.name + "Iter")
            add(d, cfg, "swapped_names")
        # custom names that are also methods of prelude traits, struct names that are also names of core types
        prelude_names = {"next": "clone", "next_back": "to_owned", "as_str": "to_string", "try_from": "try_into",
                         "from_str": "from", "iter": "into_iter", "names": "as_ref", "range": "borrow", "MIN": "default",
                         "MAX": "Output", "into": "eq"}
        # (not the names the generated functions import locally - Iterator, IntoIterator, DoubleEndedIterator, Some,
        # None, Ok, Err: a struct of that name cannot be referred to next to such an import; deliberately outside
        # the workload)
        core_structs = [("Iter", "Map"), ("IntoIter", "Copied"), ("RangeInclusive", "Range"), ("Option", "MaybeUninit"),
                        ("Rev", "Formatter")]
        for k in range(len(core_structs) if tier != "quick" else 3):
            t = tuples[(k * 3 + di + 1) % len(tuples)]
            cfg = legalize(cfg_all(t, names=prelude_names if k % 2 == 0 else None), d)
            a, b = core_structs[(k + di) % len(core_structs)]
            cfg.feats["iter"] = dict(cfg.feats["iter"], struct_name=a)
            cfg.feats["names"] = dict(cfg.feats["names"], struct_name=b)
            add(d, cfg, "prelude_names")
        # enums which are not `pub` x every documented vis value on every item, also wider than the enum's own
        # (round 5, V10b: the iterator struct was widened to range's visibility -> E0446 on a pub(crate) enum).  Only
        # `iter(vis = ..)` wider than the enum is left out: rustc itself forbids that struct (`type Item = E`).
        if d.shape in ("cfg_gapless_small", "cfg_holes_large", "cfg_holes_small") or tier != "quick":
            import dataclasses
            rank = {"": 0, "pub(crate)": 1, "pub": 2}
            for ei, ev in enumerate(("pub(crate)", "")):
                d2 = dataclasses.replace(d, vis=ev)
                for fi, f in enumerate(FN_FEATURES + ITER_FEATURES):
                    for vi, v in enumerate(("", "pub(crate)", "pub")):
                        if f == "iter" and rank[v] > rank[ev]:
                            continue
                        if tier == "quick" and rank[v] <= rank[ev] and (fi + vi + ei + di) % 3:
                            continue
                        t = tuples[(fi * 3 + vi + di + ei) % len(tuples)]
                        small = (fi + vi) % 2 == 0
                        if small and f in ("range", "iter"):
                            cfg = legalize(Config({"iter": {"mode": t["iter"]} if t.get("iter", "auto") != "auto" else {}, "range": {}}), d2)
                        elif small:
                            cfg = legalize(Config({f: {}}), d2)
                        else:
                            cfg = legalize(cfg_all(t), d2)
                        if f not in cfg.feats:
                            continue
                        cfg.feats[f] = dict(cfg.feats[f], vis=v)
                        add(d2, cfg, "enum_vis", nested=True)
        # split versus joined: the same configuration in one attribute and spread over several
        for k in range(4 if tier == "quick" else 16):
            t = tuples[rng.randrange(len(tuples))]
            joined = legalize(cfg_all(t), d)
            grp = "split:%d:%d" % (di, k)
            add(d, joined, "split", split_group=grp)
            ntok = len(joined.feature_tokens())
            for variant in range(4):
                sp = legalize(cfg_all(t), d)
                if variant >= 2:
                    # reversed / shuffled feature order: e.g. `range` in an attribute before the one with `iter`
                    items = list(sp.feats.items())
                    if variant == 2:
                        items.reverse()
                    else:
                        rng.shuffle(items)
                    sp.feats = dict(items)
                if variant % 2 == 0:
                    sp.split = [1] * (ntok - 1)
                else:
                    a = rng.randint(1, ntok - 2)
                    sp.split = [a, rng.randint(1, ntok - a - 1)]
                if variant >= 2:
                    # compared only with the joined list in the *same* order (that is what the documentation promises)
                    jo = legalize(cfg_all(t), d)
                    jo.feats = dict(sp.feats)
                    add(d, jo, "split", split_group="%s:o%d" % (grp, variant))
                    add(d, sp, "split", split_group="%s:o%d" % (grp, variant))
                else:
                    add(d, sp, "split", split_group=grp)
    per = 60 if tier == "quick" else 150
    return split_crates("cfg", cases, per)


# ---------------------------------------------------------------------------------------
# group `dom` (C11): the documented declaration domain

def dom_corpus(tier: str, seed: int):
    from .spec import make_decl, repr_domain
    rng = random.Random(1100 + seed)
    ids = IdGen(1)
    cases = []
    reprs = list(REPR_ORDER)
    if tier == "quick":
        k = seed % len(reprs)
        reprs = (reprs[k:] + reprs[:k])[:6]
        for must in ("i8", "i64", "u128"):
            if must not in reprs:
                reprs.append(must)

    def add(d, tags, cheap=False, modes_i=0, modes=None):
        gap = d.gapless()
        if modes is not None:
            cfg = legalize(cfg_all(modes), d)
        elif cheap:
            cfg = Config({f: {} for f in ("try_from", "TryFrom", "next", "next_back", "MIN", "MAX", "into", "Into")})
        else:
            tuples = mode_tuples(gap, with_range=True)
            cfg = legalize(cfg_all(tuples[(modes_i * 7 + len(cases)) % len(tuples)]), d)
        t = {"part": "dom"}
        t.update(tags)
        cases.append(Case(ids.next(), d, cfg, "plain", t))

    for ri, r in enumerate(reprs):
        bits, signed = REPRS[r]
        lo, hi = repr_domain(r)
        rlo, rhi = repr_range(r)
        # 1. spelling catalogue, all forms in one enum
        items = [("A", "0x10", None), ("B", "0o21", None), ("C", "0b10010", None), ("D", "1_9", None),
                 ("E", "20%s" % r, None), ("F", "0x15_%s" % r, None), ("G", "2_2_", None), ("H", "0x0017", None),
                 ("I", "0b0001_1000", None), ("J", "0o31%s" % r, None), ("K", "0X1A".lower(), None),
                 ("L", "0x1B", "renamed L"), ("M", "00028", None)]
        if signed:
            items += [("N", "-5", None), ("O", "- 6", None), ("P", "-0x7", None), ("Q", "-8%s" % r, None),
                      ("R", "-0b1001", None), ("S", "-0o12", None), ("T", "-1_1", None), ("U", "- 0xC", None),
                      ("V", "-0", None) if False else ("V", "-13_%s" % r, None)]
        rng.shuffle(items)
        add(make_decl(r, items, shape="dom_spellings"), {"feat": ["nondecimal", "suffix"] + (["negative"] if signed else [])}, modes_i=ri)
        # 2. implicit discriminants after explicit ones: start / middle / end
        for name, its in [
            ("implicit_start", [("A", None, None), ("B", None, None), ("C", "10", None), ("D", None, None)]),
            ("implicit_middle", [("A", "7", None), ("B", None, None), ("C", None, "c"), ("D", "3", None), ("E", None, None)]),
            ("implicit_end", [("A", "100", None), ("B", "50", None), ("C", None, None), ("D", None, None)]),
            ("implicit_hex", [("A", "0x7e" if bits == 8 and signed else "0xfe" if bits == 8 else "0x7ffe", None), ("B", None, None)]),
            ("implicit_all", [(ident_c, None, None) for ident_c in "ABCDEFG"]),
            ("implicit_after_last_low", [("A", "9", None), ("B", "1", None), ("C", None, None), ("D", "5", None), ("E", None, None), ("F", None, None)]),
        ]:
            add(make_decl(r, its, shape="dom_" + name), {"feat": ["implicit_after_explicit"]}, modes_i=ri)
        if signed:
            add(make_decl(r, [("A", "-2", None), ("B", None, None), ("C", None, None), ("D", None, None), ("E", None, "e")],
                          shape="dom_implicit_cross_zero"), {"feat": ["implicit_after_explicit", "negative"]}, modes_i=ri)
            add(make_decl(r, [("A", "5", None), ("B", str(rlo), None), ("C", None, None), ("D", None, None)],
                          shape="dom_implicit_from_type_min") if rlo >= -(1 << 63) else
                make_decl(r, [("A", "5", None), ("B", str(-(1 << 63)), None), ("C", None, None), ("D", None, None)],
                          shape="dom_implicit_from_i64_min"),
                {"feat": ["implicit_after_explicit", "limit"]}, modes_i=ri)
        # implicit reaching the upper limit of the domain
        add(make_decl(r, [("A", str(hi - 2), None), ("B", None, None), ("C", None, None), ("Z", "0", None)],
                      shape="dom_implicit_to_max"), {"feat": ["implicit_after_explicit", "limit"]}, modes_i=ri)
        # 2b. implicit discriminants counting across the limits of every narrower (and the own signed) width
        for w in (8, 16, 32, 64):
            imax = (1 << (w - 1)) - 1
            umax = (1 << w) - 1
            if imax + 2 <= hi:
                add(make_decl(r, [("A", str(imax - 1), None), ("B", None, None), ("C", None, None), ("D", None, None), ("Z", "0", None)],
                              shape="dom_implicit_across_i%d_max" % w), {"feat": ["implicit_after_explicit", "limit"]}, modes_i=ri)
            if umax + 2 <= hi:
                add(make_decl(r, [("A", "0x%x" % (umax - 1), None), ("B", None, None), ("C", None, None), ("Z", "1", None)],
                              shape="dom_implicit_across_u%d_max" % w), {"feat": ["implicit_after_explicit", "limit"]}, modes_i=ri)
        if signed and bits >= 64:
            # i64::MIN in every lint-free spelling
            add(make_decl(r, [("A", "-9_223_372_036_854_775_808", None), ("B", "-9223372036854775807%s" % r, None), ("C", "0", None)],
                          shape="dom_i64_min_spellings"), {"feat": ["limit", "suffix"]}, modes_i=ri)
            if bits > 64:
                add(make_decl(r, [("A", "-0x8000_0000_0000_0000", None), ("B", "-9223372036854775808%s" % r, None) if False else ("B", "-0o777777777777777777776", None),
                                  ("C", "- 0b111", None), ("D", "-9_223_372_036_854_775_807_%s" % r, None)],
                              shape="dom_i64_min_spellings_wide"), {"feat": ["limit", "nondecimal", "suffix"]}, modes_i=ri)
        # 2c. gapless enums sitting exactly at the lower / upper end of the domain (iter auto = range mode)
        for mm in ({"as_str": "auto", "from_str": "auto", "FromStr": "auto", "iter": "auto"},
                   {"as_str": "table", "from_str": "table", "FromStr": "match", "iter": "next_and_back"}):
            add(make_decl(r, [("A", str(lo), None), ("B", None, None), ("C", None, None)], shape="dom_gapless_from_min"),
                {"feat": ["limit", "implicit_after_explicit"]}, modes=mm)
            add(make_decl(r, [("A", str(hi - 2), None), ("B", None, None), ("C", None, None)], shape="dom_gapless_to_max"),
                {"feat": ["limit", "implicit_after_explicit"]}, modes=mm)
        # 3. limits as explicit literals
        lim = [("A", str(lo), None), ("B", str(hi), None), ("C", "0" if lo != 0 else "1", None)]
        add(make_decl(r, lim, shape="dom_limits"), {"feat": ["limit"]}, modes_i=ri)
        add(make_decl(r, [("A", str(hi), None), ("B", str(lo), "lo")], shape="dom_limits_desc"), {"feat": ["limit"]}, modes_i=ri)
        if bits > 64 and signed:
            # i64::MIN inside a wider type: any spelling is lint-free
            add(make_decl(r, [("A", "-0x8000_0000_0000_0000", None), ("B", "-9_223_372_036_854_775_807", None),
                              ("C", "0x7FFF_FFFF_FFFF_FFFF", None), ("D", "-9223372036854775808i128".replace("-9223372036854775808", "0"), None)],
                          shape="dom_i64_limits_wide"), {"feat": ["limit", "nondecimal"]}, modes_i=ri)
        if bits >= 64:
            add(make_decl(r, [("A", "0x7FFF_FFFF_FFFF_FFFF", None), ("B", "0x7FFF_FFFF_FFFF_FFFE", None), ("C", "1", None)],
                          shape="dom_i64_max_hex"), {"feat": ["limit", "nondecimal"]}, modes_i=ri)
        # 4. foreign attributes and doc comments
        fa = [
            ("A", None, None, ["/// doc comment", "#[doc = \"attr doc\"]"]),
            ("B", "5", "b", ["#[allow(dead_code)]", "#[cfg_attr(all(), allow(unused))]"]),
            ("C", None, None, ["#[deprecated]", "#[cfg(any())] Removed = 77,", "#[cfg(all())]"]),
            ("D", "2", None, ["#[default]", "/** block doc */"]),
            ("E", None, None, ["#[cfg_attr(any(), enum_tools(rename = \"never\"))]"]),
        ]
        d = make_decl(r, fa, shape="dom_foreign_attrs",
                      enum_attrs=["/// documented enum", "#[allow(dead_code, deprecated)]", "#[non_exhaustive]",
                                  "#[derive(Default, PartialEq, Eq, Hash, PartialOrd, Ord, Debug)]" if False else "#[derive(Default, PartialEq, Eq, Hash)]",
                                  "#[cfg_attr(all(), doc = \"cfg_attr doc\")]", "#[must_use]"])
        add(d, {"feat": ["foreign_attrs", "implicit_after_explicit"]}, modes_i=ri)
        # 4b. variants named like prelude items / contextual keywords / the enum itself
        odd = [("None", None, None), ("Some", None, None), ("Ok", "7", None), ("Err", None, None), ("Option", None, "opt"),
               ("Copy", None, None), ("union", None, None), ("auto", "20", None), ("default", None, None), ("E", None, None),
               ("Iter", None, None), ("EIter", None, None), ("Self_", None, None), ("core", None, None), ("str", "50", None),
               ("Error", None, None), ("Item", None, None), ("Output", None, None), ("Target", None, None), ("Owned", None, None)]
        add(make_decl(r, odd, shape="dom_odd_idents"), {"feat": ["odd_idents", "implicit_after_explicit"]}, modes_i=ri)
        # 4d. rename strings in other literal spellings: raw strings, escapes
        dd = make_decl(r, [("A", None, "raw\\n"), ("B", None, "q\"uote"), ("C", None, "A"), ("D", None, "tab\there"), ("F", None, "h#")],
                       shape="dom_rename_spellings")
        for v, txt in zip(dd.variants, ['r"raw\\n"', 'r#"q"uote"#', '"\\u{41}"', '"tab\\x09here"', 'r##"h#"##']):
            v.rename_text = txt
        add(dd, {"feat": ["rename_spelling"]}, modes_i=ri)
        # 4e. raw identifiers as variant names (the name is left open in the model, see spec.Variant.name)
        dd = make_decl(r, [("r#type", None, None), ("r#match", "5", None), ("Plain", None, None), ("r#fn", None, "renamed"),
                           ("r#struct", "2", None)], shape="dom_raw_idents")
        add(dd, {"feat": ["raw_idents", "implicit_after_explicit"]}, modes_i=ri)
        add(dd, {"feat": ["raw_idents", "implicit_after_explicit"]}, modes_i=ri + 3)
        # 4f. more variants below a later run than the signed maximum of the repr holds: the per-run offset of the
        # helper tables is a *count* and only meant modulo 2^bits (round 6, W11a: the literal `128i8` re-emitted with a
        # user span trips the deny-by-default overflowing_literals lint -> an in-domain enum stops compiling)
        if r == "i8":
            for k, vs in enumerate(([*range(-128, 0), 1], [*range(-128, 1), 3, 4, 6], [*range(-100, 30), 40, 42])):
                items = [("V%d" % i, str(v), None) for i, v in enumerate(vs)]
                dd = make_decl(r, items, shape="dom_i8_many_before_later_%d" % k)
                add(dd, {"feat": ["size", "negative"]}, modes={"as_str": "table", "from_str": "match", "FromStr": "match", "iter": "next_and_back"})
                add(dd, {"feat": ["size", "negative"]}, modes={"as_str": "match", "from_str": "table", "FromStr": "auto", "iter": "table"})
                add(dd, {"feat": ["size", "negative"]}, modes={"as_str": "auto", "from_str": "auto", "FromStr": "auto", "iter": "auto"})
        if r == "i16" and tier != "quick":
            vs = [*range(-32768, 1), 5]
            dd = make_decl(r, [("V%d" % i, str(v), None) for i, v in enumerate(vs)], shape="dom_i16_many_before_later")
            add(dd, {"feat": ["size", "negative"]}, modes={"as_str": "table", "from_str": "match", "FromStr": "match", "iter": "next_and_back"})
        # 4c. enums named like prelude / core items, repr given through cfg_attr and before the derive
        # (single letters: the names generic parameters of generated methods would have)
        for ename in (["Option", "Copy", "B", "F"] if tier == "quick" else
                      # (not Some / None / Ok / Err / Iterator / IntoIterator / DoubleEndedIterator: the generated
                      # functions import those names locally; an enum of that name is deliberately outside the workload)
                      ["Option", "Result", "Copy", "e", "Ordering", "String", "B", "F", "T", "I", "R", "S", "Item", "Self_"]):
            dd = make_decl(r, [("A", None, None), ("B", "5", "b"), ("C", None, None), ("D", "2", None)], shape="dom_enum_named_" + ename)
            dd.name = ename
            add(dd, {"feat": ["enum_name", "implicit_after_explicit"]}, modes_i=ri)
        dd = make_decl(r, [("A", "3", None), ("B", None, None), ("C", "1", None)], shape="dom_repr_cfg_attr",
                       enum_attrs=["#[cfg_attr(all(), repr(%s))]" % r, "#[cfg_attr(any(), repr(u8))]"])
        dd.repr_attr = False
        add(dd, {"feat": ["foreign_attrs", "implicit_after_explicit"]}, modes_i=ri)
        dd = make_decl(r, [("A", "3", None), ("B", None, None), ("C", "1", None)], shape="dom_repr_before_derive",
                       enum_attrs=["#[repr(%s)]" % r])
        dd.repr_attr = False
        add(dd, {"feat": ["foreign_attrs", "implicit_after_explicit"]}, modes_i=ri)
        # 5. sizes
        if bits > 8:
            for n in (255, 256, 257):
                base = -120 if signed else 3
                vs = list(range(base, base + n))
                add(shapes.build_decl(r, vs, "dom_n%d" % n, "implicit", "first", rng), {"feat": ["size"]}, modes_i=ri)
        else:
            vs = list(range(rlo, rhi + 1))
            add(shapes.build_decl(r, vs, "dom_whole_type", "implicit", "first", rng), {"feat": ["size", "limit"]}, modes_i=ri)
        # 6. random in-domain declarations with mixed spellings
        import os
        for _ in range(0 if os.environ.get("VERIF_NO_RANDOM") else (3 if tier == "quick" else 60)):
            d = shapes.random_decl(r, rng, max_n=16)
            add(d, {"feat": ["random"]}, modes_i=ri)
    # sizes beyond the small ones
    big = [(1000, "u16")] if tier == "quick" else [(1000, "u16"), (4000, "i32")]
    for n, r in big:
        vs = list(range(0, n // 2)) + list(range(n // 2 + 10, n + 10))
        add(shapes.build_decl(r, vs, "dom_n%d" % n, "implicit", "none", rng), {"feat": ["size"]}, modes_i=1)
    limit_cases = []
    if tier != "quick":
        n = 65534
        vs = list(range(0, 30000)) + list(range(30001, 30001 + n - 30000))
        d = shapes.build_decl("u16" if False else "u32", vs, "dom_limit_65534", "implicit", "none", rng)
        c = Case(ids.next(), d, Config({f: {} for f in ("try_from", "TryFrom", "next", "next_back", "MIN", "MAX", "into", "Into")}),
                 "plain", {"part": "dom", "feat": ["size", "limit_65534"]})
        limit_cases.append(c)
        d = shapes.build_decl("u16", list(range(1, n + 1)), "dom_limit_65534_u16", "implicit", "none", rng)
        c = Case(ids.next(), d, Config({f: {} for f in ("iter", "range", "next", "try_from", "MIN", "MAX", "into")}),
                 "plain", {"part": "dom", "feat": ["size", "limit_65534", "limit"]})
        limit_cases.append(c)
    per = 40 if tier == "quick" else 100
    return split_crates("dom", cases, per) + split_crates("domlimit", limit_cases, 1)
