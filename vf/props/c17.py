"""C17: expansion is deterministic - equal input text must give equal output text, in every
module of a process (fresh RandomState per HashMap) and in every rustc process."""
from __future__ import annotations

import os
import random
import time

from .. import build, corpus, emit, shapes
from ..build import Inconclusive, Lock, WORK
from ..emit import crate_manifest, dep_enum_tools, write_if_changed
from ..spec import Config, all_features_config
from ..verdict import Violation, finish

RULE = ("declarations with 4-300 variants (gapless and with holes, renames, shuffled order, all 17 features, several mode "
        "tuples, features split over attributes in shuffled order) are repeated verbatim in R modules of a crate and the crate "
        "is compiled under P different crate names, i.e. in P fresh rustc processes with fresh hash seeds (re-expansion forced "
        "on every run); hook records are grouped by input text and must have exactly one distinct output text; counted: "
        "(input text, process) pairs whose input has >= 2 records")


def det_decls(tier: str, seed: int):
    rng = random.Random(1700 + seed)
    out = []
    specs = [("i8", 4, False), ("u8", 30, True), ("i16", 60, True), ("u32", 120, False), ("i64", 300, True), ("u16", 33, True)]
    if tier != "quick":
        specs += [("i128", 200, True), ("usize", 90, True), ("i32", 250, False), ("u64", 17, True), ("isize", 64, True), ("u128", 150, True)]
    for r, n, holes in specs:
        if holes:
            vs = []
            cur = -(n // 3) if r.startswith("i") else 1
            if r == "i8":
                cur = -2
            while len(vs) < n:
                run = rng.randint(1, 6)
                for _ in range(run):
                    if len(vs) < n:
                        vs.append(cur)
                        cur += 1
                cur += rng.randint(1, 3)
        else:
            base = -1 if r.startswith("i") else 0
            vs = list(range(base, base + n))
        seq = shapes.order_values(vs, "perm", rng)
        d = shapes.build_decl(r, seq, "det_%s_%d" % (r, n), "mixed", "pool" if n < 100 else "all", rng)
        gap = d.gapless()
        tuples = corpus.mode_tuples(gap, with_range=True)
        picks = [{"as_str": "match", "from_str": "match", "FromStr": "match", "iter": "next_and_back"},
                 {"as_str": "table", "from_str": "table", "FromStr": "table", "iter": "table"},
                 rng.choice(tuples)]
        for t in picks:
            cfg = corpus.legalize(corpus.cfg_all(t, names=corpus.CUSTOM_NAMES if rng.random() < 0.5 else None), d)
            # shuffle the order in which the features are listed and split them
            items = list(cfg.feats.items())
            rng.shuffle(items)
            cfg.feats = dict(items)
            cfg.split = [rng.randint(1, 6), rng.randint(1, 6)]
            out.append((d, cfg))
    # unconventional parameters: mixed-case custom names, every vis, struct names; far-apart values
    odd_names = {"into": "toRepr", "MIN": "First", "MAX": "last_one", "as_str": "nameOf", "next": "Succ",
                 "try_from": "from_Prim", "iter": "all", "names": "allNames", "range": "between", "from_str": "parse_it",
                 "next_back": "pred"}
    for r, vs in (("i64", [-(1 << 63), -1000, 0, 1000, (1 << 63) - 2]),
                  ("i128", [-(1 << 63), -(1 << 63) + 1, -7, 8, 9, (1 << 63) - 1]),
                  ("u16", [1, 2, 3, 5, 8, 13, 21, 34, 55, 89, 144, 233, 377, 610, 987, 1597, 2584, 4181, 6765])):
        seq = shapes.order_values(vs, "perm", rng)
        d = shapes.build_decl(r, seq, "det_odd_%s" % r, "mixed", "multibyte", rng)
        for k in range(2):
            t = {"as_str": ["match", "table"][k], "from_str": ["table", "match"][k], "FromStr": "auto", "iter": ["next_and_back", "table"][k]}
            cfg = corpus.legalize(corpus.cfg_all(t, names=odd_names), d)
            for i, f in enumerate(list(cfg.feats)):
                if f in ("as_str", "from_str", "into", "MAX", "MIN", "next", "next_back", "try_from", "names", "range") and (i + k) % 3 == 0:
                    cfg.feats[f] = dict(cfg.feats[f], vis=["", "pub(crate)", "pub"][(i + k) % 3])
            cfg.feats["iter"] = dict(cfg.feats["iter"], struct_name="Walker")
            cfg.feats["names"] = dict(cfg.feats["names"], struct_name="name_walker")
            items = list(cfg.feats.items())
            rng.shuffle(items)
            cfg.feats = dict(items)
            cfg.split = [rng.randint(1, 5), rng.randint(1, 5), rng.randint(1, 5)]
            out.append((d, cfg))
    # two to four missing values between MIN and MAX; duplicate names under match-mode string features
    for r, vs, renames in (("u8", [1, 2, 4, 5, 7, 9, 10], "none"), ("i16", [-4, -3, -1, 0, 1, 3], "dups"),
                           ("u32", [10, 11, 12, 14, 15, 17, 18, 19, 20, 21, 22, 23, 24, 25, 26, 27, 28, 29], "dups")):
        d = shapes.build_decl(r, shapes.order_values(vs, "perm", rng), "det_small_%s" % r, "dec", renames, rng)
        for t in ({"as_str": "match", "from_str": "match", "FromStr": "match", "iter": "table"},
                  {"as_str": "auto", "from_str": "table", "FromStr": "auto", "iter": "auto"}):
            out.append((d, corpus.legalize(corpus.cfg_all(t), d)))
        out.append((d, corpus.legalize(Config({"as_str": {}, "try_from": {}, "TryFrom": {}, "Debug": {}}), d)))
    # declarations in ascending order carrying the compile-time sorted check
    for r, n in (("i16", 9), ("u8", 40)):
        vs = [(-4 if r == "i16" else 2) + 2 * i + (i // 5) for i in range(n)]
        d = shapes.build_decl(r, vs, "det_sorted_%s_%d" % (r, n), "dec", "none", rng)
        for sv, sn in ((True, False), (True, True)):
            cfg = corpus.legalize(corpus.cfg_all({"as_str": "match", "from_str": "table", "FromStr": "match", "iter": "next_and_back"}), d)
            cfg.sorted_value = sv
            cfg.sorted_name = sn and all(a.ident < b.ident for a, b in zip(d.variants, d.variants[1:]))
            out.append((d, cfg))
    # siblings: for every declaration with holes one more with the same enum name, the same smallest and largest
    # discriminant and the same number of variants, but another value set in between.  A cache inside the macro which
    # is keyed by less than the whole declaration (round 6, W17a: runs memoised per (name, min, max, count) for the
    # life of the compiler process) then gives one of the two the other's tables -- in the processes where the sibling
    # is expanded first (the expansion order is rotated per process), so the same input has two outputs.
    sibs = []
    seen = set()
    for d, cfg in out:
        if d.gapless() or d.key() in seen:
            continue
        seen.add(d.key())
        vals = [v.value for v in d.variants]
        have = set(vals)
        lo, hi = min(vals), max(vals)
        pick = None
        for i, v in enumerate(vals):
            if v in (lo, hi):
                continue
            for w in (v + 1, v - 1):
                if lo < w < hi and w not in have and ((v - 1 in have) != (w - 1 in have - {v}) or (v + 1 in have) != (w + 1 in have - {v})):
                    pick = (i, w)
                    break
            if pick:
                break
        if not pick:
            continue
        nv = list(vals)
        nv[pick[0]] = pick[1]
        d2 = shapes.build_decl(d.repr, nv, d.shape + "_sib", "mixed", "none", rng)
        d2.name = d.name
        c2 = corpus.legalize(corpus.cfg_all({"as_str": "table", "from_str": "match", "FromStr": "auto", "iter": "next_and_back"}), d2)
        sibs.append((d2, c2))
    return out + sibs


def run(tier: str, seed: int) -> int:
    prop = "C17"
    t0 = time.time()
    violations, inconclusive = [], []
    coverage = {}
    try:
        root = os.path.join(WORK, "det-%s" % tier)
        R = 8 if tier == "quick" else 16
        P = 16 if tier == "quick" else 64
        with Lock(root + ".lock"):
            build.prepare_root(root)
            decls = det_decls(tier, seed)
            files = {}
            for di, (d, cfg) in enumerate(decls):
                body = d.text("#[derive(Clone, Copy, ::enum_tools::EnumTools)]", cfg.attrs())
                files[di + 1] = "// nonce %s\n" % time.time_ns() + "".join(
                    "pub mod r%02d {\n%s\n}\n" % (k, body) for k in range(R))
            records = []
            rounds = (P + 15) // 16
            nproc = 0
            secs = 0.0
            dropped = {}
            partial = {}
            import glob
            import json
            for rd in range(rounds):
                crates = ["det_%02d_%02d" % (rd, i) for i in range(min(16, P - rd * 16))]
                for attempt in range(3):
                    emit.emit_workspace(root, crates)
                    for c in crates:
                        cdir = os.path.join(root, c)
                        write_if_changed(os.path.join(cdir, "Cargo.toml"), crate_manifest(c, {"enum-tools": dep_enum_tools()}))
                        src = os.path.join(cdir, "src")
                        os.makedirs(src, exist_ok=True)
                        live = [i for i in files if i not in dropped]
                        for i in live:
                            with open(os.path.join(src, "k%06d.rs" % i), "w") as fh:
                                fh.write(files[i].replace("// nonce", "// nonce %s" % c))
                        for f in os.listdir(src):
                            if f.startswith("k") and int(f[1:7]) in dropped:
                                os.remove(os.path.join(src, f))
                        # every process expands the declarations in another (rotated) order: what was expanded before an
                        # input differs from process to process (state carried between expansions, round 5 / V14b)
                        k = (crates.index(c) * 7 + rd) % max(1, len(live))
                        rot = live[k:] + live[:k]
                        with open(os.path.join(src, "lib.rs"), "w") as fh:
                            fh.write("#![allow(dead_code, unreachable_patterns)]\n" + "".join("pub mod k%06d;\n" % i for i in rot))
                    os.makedirs(os.path.join(root, "hooklog"), exist_ok=True)
                    for f in glob.glob(os.path.join(root, "hooklog", "*.jsonl")):
                        os.remove(f)
                    args = ["build", "--offline", "--keep-going"]
                    for c in crates:
                        args += ["-p", c]
                    rc, msgs, err, s = build.run_cargo(root, args, env={"ENUM_TOOLS_VERIF_LOG": os.path.join(root, "hooklog")})
                    secs += s
                    if rc == 0:
                        break
                    by_case, rest = build.attribute(build.compiler_errors(msgs))
                    if not by_case:
                        raise Inconclusive("det crates do not build: %s %s" % (
                            rest[0]["rendered"][:1500] if rest else "", err[-1500:]))
                    # a declaration which does not compile is not C17's business (C10 / C11 report it): drop it --
                    # unless it fails in some processes only: the same input text, another outcome
                    for cid, errs in by_case.items():
                        where = {e.get("crate") for e in errs}
                        if None not in where and 0 < len(where) < len(crates) and cid not in partial:
                            partial[cid] = (sorted(where), errs[0]["message"][:200])
                    dropped.update(by_case)
                else:
                    raise Inconclusive("det crates still do not build after dropping %d declarations" % len(dropped))
                for f in glob.glob(os.path.join(root, "hooklog", "*.jsonl")):
                    nproc += 1
                    cur = {}
                    with open(f, encoding="utf-8") as fh:
                        for line in fh:
                            r = json.loads(line)
                            cur.setdefault((r["pid"], r["seq"]), {})[r["k"]] = r
                    for rec in cur.values():
                        if "begin" in rec and "end" in rec:
                            records.append((rec["begin"]["input"], rec["end"]["output"], rec["begin"]["pid"], rec["begin"]["crate"]))
                    os.remove(f)
            all_decls = decls
            decls = [dc for i, dc in enumerate(decls) if (i + 1) not in dropped]
        for cid, (where, msg) in sorted(partial.items()):
            d, cfg = all_decls[cid - 1]
            violations.append(Violation(
                prop, "C17|fails-in-some-processes|%s|%s" % (d.shape, cfg.key()[:80]),
                "the same input compiles in some rustc processes and is rejected in others (%d of the %d of its round, e.g. %s; "
                "the processes expand the declarations in different orders): %s -- %s %s" % (
                    len(where), min(16, P), where[0], msg, d.short(), cfg.short()[:200]),
                {"kind": "process-dependent-outcome", "crates_failing": where, "message": msg, "source": files[cid][:6000]}))
        by_input = {}
        for inp, out, pid, crate in records:
            by_input.setdefault(inp, {}).setdefault(out, []).append((pid, crate))
        pairs = set()
        for inp, outs in by_input.items():
            total = sum(len(v) for v in outs.values())
            if total >= 2:
                for v in outs.values():
                    for pid, crate in v:
                        pairs.add((hash(inp), pid))
            if len(outs) > 1:
                (oa, wa), (ob, wb) = list(outs.items())[:2]
                i = next((i for i, (x, y) in enumerate(zip(oa, ob)) if x != y), min(len(oa), len(ob)))
                head = inp[:200].replace("\n", " ")
                violations.append(Violation(
                    prop, "C17|nondeterministic|%s" % head[:80],
                    "%d distinct expansions for one input (%d records): e.g. process %s vs %s differ at char %d: %r / %r ; input: %s" % (
                        len(outs), total, wa[0], wb[0], i, oa[max(0, i - 60):i + 60], ob[max(0, i - 60):i + 60], head),
                    {"kind": "nondeterminism", "input": inp, "output_a": oa[:5000], "output_b": ob[:5000],
                     "first_difference": i, "where_a": wa[:3], "where_b": wb[:3]}))
        if len(by_input) != len({(d.key(), c.key(), tuple(c.split or ()), tuple(c.feats)) for d, c in decls}):
            pass
        expected_records = len(decls) * R * P
        if len(records) != expected_records:
            inconclusive.append("expected %d expansion records, hook log has %d" % (expected_records, len(records)))
        sample_in = next(iter(by_input)) if by_input else ""
        coverage = {
            "evaluations": len(records),
            "distinct_nontrivial": len(pairs),
            "rule": RULE,
            "samples": [{"input": sample_in[:400], "records": sum(len(v) for v in by_input.get(sample_in, {}).values()),
                         "distinct_outputs": len(by_input.get(sample_in, {}))}],
            "distinct_inputs": len(by_input),
            "rustc_processes": nproc,
            "modules_per_process_per_input": R,
            "max_distinct_outputs_per_input": max([len(v) for v in by_input.values()] or [0]),
            "cargo_s": round(secs, 1),
            "declarations_dropped_because_they_do_not_compile": sorted(dropped),
        }
        if len(decls) < 2:
            inconclusive.append("fewer than two declarations compile")
    except Inconclusive as e:
        inconclusive.append(str(e))
    return finish(prop, tier, seed, t0, violations, inconclusive, coverage, [
        "hash seeds are sampled (one per rustc process and per HashMap), not enumerated: a dependence needing a specific seed pair can be missed",
        "only generated code is compared; the order of error messages is outside the property",
        "the hook records the token text of the expansion (TokenStream::to_string)",
    ])
