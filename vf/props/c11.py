"""C11: declarations in the documented domain are accepted, with the compiler's discriminants.
Three-way agreement: generator model == compiler (`v as repr`) == macro (hook `values`, and
observably into / try_from / MIN / MAX / iteration order)."""
from __future__ import annotations

import time

from .. import corpus, hookcheck
from ..build import Inconclusive, Lock
from ..rungroup import RunGroup
from ..verdict import Violation, finish
from .runtime import case_payload

RULE = ("cases = declarations of the documented domain for each repr: every literal spelling (decimal, 0x/0o/0b, `_` separators, "
        "type suffix, `-5`, `- 5`, negative hex/oct/bin, leading zeros) mixed in one enum, implicit discriminants at the start / "
        "middle / end and across zero, implicit values running up to the type / i64 maximum, R::MIN / R::MAX / i64::MIN / i64::MAX "
        "literals, doc comments and foreign attributes (doc, allow, deprecated, non_exhaustive, cfg, cfg_attr, another derive's "
        "helper attribute), 255/256/257/1000 (thorough: 4000, 65534) variants, seeded random declarations; each must build; the "
        "hook log's sorted (discriminant, ident, name) list must equal the model, which the harness compares with `v as repr`; "
        "into / try_from / MIN / MAX / next / iter are checked by the runtime monitors; counted: declarations using a non-decimal / "
        "negative / suffixed / implicit-after-explicit / limit-valued discriminant, > 256 variants or foreign attributes")


def run(tier: str, seed: int) -> int:
    prop = "C11"
    t0 = time.time()
    violations, inconclusive = [], []
    coverage = {}
    try:
        g = RunGroup(tier, seed, name="dom", planner=corpus.dom_corpus)
        with Lock(g.root + ".lock"):
            g.prepare()
            hook = g.hooklog()
            planned = g.all_planned()
            for cid, errs in sorted(g.dropped.items()):
                c = planned.get(cid)
                if c is None:
                    continue
                ok, errors, how = g.confirm_dropped(c)
                if ok:
                    continue
                # control: the same declaration without the derive must be valid Rust, else the generator is wrong
                from ..compilegroup import CompileGroup, Item
                ctl_text = c.decl.text("#[derive(Clone, Copy)]", [], with_tool_attrs=False)
                cok, cerrs = CompileGroup("domctl", tier).confirm_alone(Item(c.id, ctl_text, "accept"))
                if not cok:
                    inconclusive.append("generator error: declaration of case %d is not valid Rust even without the derive: %s -- %s" % (
                        c.id, c.decl.short(), cerrs[0]["message"][:200] if cerrs else "?"))
                    continue
                violations.append(Violation(
                    prop, "C11|rejected|%s|%s|%s" % (c.decl.shape, c.decl.repr, errors[0]["message"][:60]),
                    "in-domain declaration does not compile: %s (%s) -- %s" % (
                        c.decl.short(), c.cfg.short()[:120], errors[0]["message"][:300]),
                    case_payload(c, {"kind": "does-not-compile", "errors": [e["rendered"][:1500] for e in errors[:3]]})))
            reps, aborts = g.run(["C01", "C05", "C06", "C03"], "quick",
                                 sets={"rand_hist": 20, "exhaustive_bits": 16})
        events = 0
        for r in reps:
            c = g.cases.get(r["case"])
            if c is None:
                continue
            if r["harness"]:
                inconclusive.append("generator model disagrees with the compiler in case %d (%s): %s" % (
                    r["case"], c.decl.short(), r["harness"][0]))
                continue
            events += r["events"]
            for v in r["viol"][:2]:
                violations.append(Violation(
                    prop, "C11|discriminant|%s|%s|%s" % (v["item"], c.decl.shape, c.decl.repr),
                    "derived code disagrees with the compiler's discriminants for %s: %s" % (c.decl.short(), v["detail"]),
                    case_payload(c, {"kind": "runtime", "item": v["item"], "event": v["detail"], "prop": r["prop"]})))
        for a in aborts:
            if a["case"] is None:
                inconclusive.append("shard %s: %s: %s" % (a.get("shard"), a["how"], a["output"][-400:]))
                continue
            c = g.cases[a["case"]]
            violations.append(Violation(
                prop, "C11|abort|%s|%s" % (c.decl.shape, c.decl.repr),
                "case %d %s aborted (%s)" % (c.id, c.decl.short(), a["how"]),
                case_payload(c, {"kind": "abort", "how": a["how"], "output": a["output"][-3000:]})))
        hook_checked = 0
        for cid, c in g.cases.items():
            rec = hook.get(cid)
            if rec is None:
                inconclusive.append("no hook record for case %d" % cid)
                continue
            hook_checked += 1
            for e in hookcheck.check_record(c, rec)[:2]:
                violations.append(Violation(
                    prop, "C11|hook|%s|%s|%s" % (c.decl.shape, c.decl.repr, e[:50]),
                    "expansion log of %s: %s" % (c.decl.short(), e),
                    case_payload(c, {"kind": "hook", "event": e})))
        feats = {}
        nontriv = set()
        for c in planned.values():
            fs = c.tags.get("feat", [])
            d = c.decl
            auto = []
            if any(v.expr and not v.expr.lstrip("- ").isdigit() for v in d.variants):
                auto.append("nondecimal_or_suffix")
            if any(v.value < 0 for v in d.variants):
                auto.append("negative")
            seen_explicit = False
            for v in d.variants:
                if v.expr is not None:
                    seen_explicit = True
                elif seen_explicit:
                    auto.append("implicit_after_explicit")
                    break
            if len(d.variants) > 256:
                auto.append("gt256")
            if d.enum_attrs or any(v.attrs for v in d.variants):
                auto.append("foreign_attrs")
            for f in set(fs) | set(auto):
                feats[f] = feats.get(f, 0) + 1
            if set(auto) or "limit" in fs:
                nontriv.add(d.key())
        samples = [{"case": c.describe(), "tags": c.tags.get("feat"),
                    "outcome": "compiled" if c.id in g.cases else "rejected"}
                   for c in list(planned.values())[seed % 7::29][:6]]
        coverage = {
            "evaluations": len(planned),
            "distinct_nontrivial": len(nontriv),
            "rule": RULE,
            "samples": samples,
            "declarations_per_feature": feats,
            "compiled": len(g.cases),
            "rejected": len(g.dropped),
            "runtime_events": events,
            "hook_records_checked": hook_checked,
            "reprs": sorted({c.decl.repr for c in planned.values()}),
            "max_variants": max(len(c.decl.variants) for c in planned.values()),
            "build_s": round(g.build_s, 1),
        }
    except Inconclusive as e:
        inconclusive.append(str(e))
    return finish(prop, tier, seed, t0, violations, inconclusive, coverage, [
        "the model computes discriminants as the Rust reference specifies; the harness compares it with `v as repr` for every variant (mismatch = inconclusive, not a violation)",
        "literal spellings are restricted to forms rustc accepts without deny-by-default lints (no hex spelling of a signed type's minimum)",
        "raw identifiers, macro-generated enums and variants named like generated items are outside the workload",
    ])
