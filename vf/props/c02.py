"""C02: no undefined behaviour.  Deciding instruments: Miri (UB interpreter), rustc's
debug-build UB checks on the native run of the whole corpus, valgrind memcheck on a
release build (thorough), and the discriminant-membership monitor on every value."""
from __future__ import annotations

import time

from ..build import Inconclusive, Lock
from ..rungroup import RunGroup
from ..verdict import Violation, finish
from .runtime import ASSUMPTIONS, case_payload, confirm_dropped

RULE = ("cases = (declaration, configuration, context) of the runtime corpus; each is driven through all "
        "property workloads (try_from probes, names + near-miss strings, every variant for next/next_back/as_str, "
        "iterator histories, range pairs) (a) natively in a debug build with rustc's UB checks for every case, "
        "(b) under Miri for a selection covering every unsafe-site class seen in the hook log, "
        "(c) under valgrind memcheck on a release build for every case with <= 300 variants; every returned enum value's discriminant is "
        "checked for membership. Counted as distinct non-trivial: cases executed under Miri or the UB-instrumented "
        "build which reached >= 1 unsafe-site class (transmute / unwrap_unchecked / assume_init)")


def site_classes(case, hk, items: dict) -> dict:
    """unsafe-site class -> number of executed events which go through it (upper bound by item)"""
    out = {}
    if not hk:
        return out
    f = hk["features"]
    gap = case.decl.gapless()
    shape = "gapless" if gap else "holes"

    def add(k, n):
        if n:
            out[k] = out.get(k, 0) + n

    add("transmute:try_from(%s)" % shape, items.get("try_from", 0) + items.get("TryFrom", 0))
    nx = items.get("next", 0) + items.get("next_back", 0)
    if gap:
        add("transmute:next/next_back(gapless)", nx)
    else:
        add("unwrap_unchecked+transmute:next/next_back(holes)", nx)
    for feat, item in (("from_str", "from_str"), ("FromStr", "FromStr")):
        if f[feat]["enabled"] and f[feat]["mode"] == "table" and gap:
            add("transmute:from_str-table(gapless)", items.get(item, 0))
    if f["iter"]["enabled"]:
        m = f["iter"]["mode"]
        if m == "range":
            add("transmute:iter-range", items.get("iter", 0) + items.get("range", 0) + items.get("zip", 0))
        if m == "next_and_back":
            add("transmute:next/next_back via iterator(%s)" % shape, items.get("iter", 0) + items.get("range", 0))
        if not gap and m in ("next_and_back", "table"):
            add("assume_init:range(holes)", items.get("range", 0))
    if f["as_str"]["enabled"] and f["as_str"]["mode"] == "table" and not gap:
        add("unwrap_unchecked:as_str-table(holes)",
            items.get("as_str", 0) + items.get("Display", 0) + items.get("Debug", 0) + items.get("IntoStr", 0))
    return out


def site_signature(case, hk) -> tuple:
    if not hk:
        return ("?",)
    f = hk["features"]
    return (case.decl.gapless(),
            f["iter"]["mode"] if f["iter"]["enabled"] else "-",
            f["as_str"]["mode"] if f["as_str"]["enabled"] else "-",
            f["from_str"]["mode"] if f["from_str"]["enabled"] else "-",
            f["FromStr"]["mode"] if f["FromStr"]["enabled"] else "-",
            f["range"]["enabled"], f["try_from"]["enabled"] or f["TryFrom"]["enabled"],
            f["next"]["enabled"], f["next_back"]["enabled"],
            case.decl.repr in ("i8", "i64", "i128", "isize"))


def select_for_miri(g: RunGroup, tier: str, seed: int):
    """quick: 64 cases, thorough: 400.  First several cases for every unsafe-site class (so that class
    coverage never depends on the cap), then the cheapest cases of every distinct unsafe-site signature,
    shapes with negative later runs first.  Miri manages ~50-500 checked events/s per process."""
    hook = g.hooklog()
    quick = tier == "quick"
    cap = 64 if quick else 400
    per_class = 3 if quick else 12
    per_sig = 1 if quick else 4
    cases = [c for c in g.cases.values() if len(c.decl.variants) <= (28 if quick else 64)]
    by_sig = {}
    for c in cases:
        by_sig.setdefault(site_signature(c, hook.get(c.id, {}).get("resolved")), []).append(c)
    cands = []
    for sig, lst in sorted(by_sig.items(), key=lambda kv: repr(kv[0])):
        lst.sort(key=lambda c: (len(c.decl.variants), c.id))
        pool = lst[:6 * per_sig]
        k = seed % len(pool)
        cands.extend((pool[k:] + pool[:k])[:per_sig])
    every = {"try_from": 1, "TryFrom": 1, "next": 1, "next_back": 1, "from_str": 1, "FromStr": 1, "iter": 1, "range": 1,
             "zip": 1, "as_str": 1, "Display": 1, "Debug": 1, "IntoStr": 1}

    def classes(c):
        return set(site_classes(c, hook.get(c.id, {}).get("resolved"), every))

    picks, seen = [], set()
    all_classes = sorted(set().union(*[classes(c) for c in cands])) if cands else []
    for cl in all_classes:
        have = [c for c in cands if cl in classes(c)]
        have.sort(key=lambda c: (len(c.decl.variants), (c.id * 7 + seed) % 11))
        for c in have[:per_class]:
            if c.id not in seen:
                seen.add(c.id)
                picks.append(c)

    def interest(c):
        vals = c.decl.values()
        return (0 if (vals[0] < 0 and not c.decl.gapless()) else 1, len(vals), c.id)
    for c in sorted(cands, key=interest):
        if len(picks) >= cap:
            break
        if c.id not in seen:
            seen.add(c.id)
            picks.append(c)
    if not quick:
        # a few large enums as well (index arithmetic beyond 8 bits)
        big = sorted((c for c in g.cases.values() if 200 <= len(c.decl.variants) <= 300), key=lambda c: c.id)
        for c in big[seed % 3::max(1, len(big) // 6)][:6]:
            if c.id not in seen:
                seen.add(c.id)
                picks.append(c)
    return sorted(picks, key=lambda c: -len(c.decl.variants))


# Configurations the documentation forbids *because the generated code would be unsound* (the range-mode iterator
# transmutes every integer between MIN and MAX).  On a tree which holds they do not compile, so there is no execution to
# watch; if a change makes one compile, C02 runs it: every value it yields must still be a declared variant (round 5,
# V02b: the macro-time refusal was replaced by a const assertion which nothing evaluates).
FORBIDDEN = [
    ("holes_range_mode", "#[enum_tools(iter(mode = \"range\"))]", "u8", [("A", 1), ("B", 2), ("C", 5)], False),
    ("holes_range_mode_split", "#[enum_tools(Debug)]\n#[enum_tools(iter(mode = \"range\", name = \"iter\"))]", "i16",
     [("A", -3), ("B", 0), ("C", 300), ("D", 301)], False),
    ("holes_range_mode_with_range", "#[enum_tools(iter(mode = \"range\"), range)]", "i8", [("A", -128), ("B", -127), ("C", 127)], True),
    ("holes_range_mode_one_gap", "#[enum_tools(into, iter(mode = \"range\"))]", "u64", [("A", 0), ("B", 2)], False),
]


def forbidden_probes(tier: str):
    """-> (violations, coverage)"""
    from ..compilegroup import CompileGroup
    g = CompileGroup("c02forbid", tier)
    out, cov = [], {}
    for name, attr, repr_, vs, with_range in FORBIDDEN:
        body = ", ".join("%s = %d" % (i, v) for i, v in vs)
        main = ("use enum_tools::EnumTools;\n#[derive(Clone, Copy, EnumTools)]\n%s\n#[repr(%s)]\npub enum E { %s }\n"
                "fn main() {\n    for v in E::iter() { println!(\"{}\", v as %s as i128); }\n" % (attr, repr_, body, repr_))
        if with_range:
            main += "    for v in E::range(E::%s, E::%s) { println!(\"{}\", v as %s as i128); }\n" % (vs[0][0], vs[-1][0], repr_)
        main += "}\n"
        with Lock(g.root + ".lock"):
            built, rc, stdout, err = g.probe_bin_raw("forbid_" + name, main)
        if not built:
            cov[name] = "refused at compile time: " + err[:80]
            continue
        members = {v for _, v in vs}
        seen = [int(x) for x in stdout.split() if x.lstrip("-").isdigit()]
        bad = [x for x in seen if x not in members]
        cov[name] = "compiles; exit %s; yielded %s" % (rc, seen[:12])
        if rc != 0 or bad:
            out.append(Violation(
                "C02", "C02|forbidden-config-unsound|%s" % name,
                "%s on #[repr(%s)] enum { %s } is documented as invalid, compiles nevertheless, and iter() %s" % (
                    attr.replace("\n", " "), repr_, body,
                    ("yields values which are not declared variants: %s" % bad[:6]) if bad else
                    ("aborts (exit %s): %s" % (rc, " | ".join(err.splitlines()[-3:])[:300]))),
                {"kind": "forbidden-config", "source": main, "stdout": stdout[-2000:], "stderr": err[-2000:], "rc": rc}))
    return out, cov


def run(tier: str, seed: int) -> int:
    prop = "C02"
    t0 = time.time()
    violations, inconclusive = [], []
    coverage = {}
    try:
        g = RunGroup(tier, seed)
        with Lock(g.root + ".lock"):
            g.prepare()
            hook = g.hooklog()
            dv, unbuildable = confirm_dropped(g, prop, lambda c: True)
            violations += dv
            # (a) native, debug UB checks, whole corpus
            t1 = time.time()
            reps, aborts = g.run(["C02"], tier, mode="native")
            phase = {"native_s": round(time.time() - t1, 1)}
            # (b) Miri
            miri_s = g.build_miri()
            t1 = time.time()
            sel = select_for_miri(g, tier, seed)
            mreps, maborts = g.run(["C02"], "miri-quick" if tier == "quick" else "miri-thorough",
                                   mode="miri", only=[c.id for c in sel], timeout=7200)
            phase["miri_run_s"] = round(time.time() - t1, 1)
            t1 = time.time()
            # (c) valgrind memcheck on a release build (debug checks off): measured ~25x native, so it
            # sees far more cases than Miri; it cannot see invalid enum values, but it does see the use
            # of an unwritten MaybeUninit index and invalid reads
            g.build_release()
            vsel = sorted((c for c in g.cases.values() if len(c.decl.variants) <= 300),
                          key=lambda c: -len(c.decl.variants))
            vreps, vaborts = g.run(["C02"], "miri-thorough" if tier == "quick" else "quick", mode="valgrind",
                                   only=[c.id for c in vsel], timeout=1200 if tier == "quick" else 7200,
                                   case_timeout=120,
                                   sets=None if tier == "quick" else {"exhaustive_bits": 8, "rand_hist": 40, "pairs_all_n": 16, "pairs_sample": 100})
        phase["release_build_and_valgrind_s"] = round(time.time() - t1, 1)
        fv, forbidden_cov = forbidden_probes(tier)
        violations += fv
        sites = {"native": {}, "miri": {}, "valgrind": {}}
        evaluations = 0
        reached_cases = set()
        samples = []
        functional_noted = 0
        for label, rr in (("native", reps), ("miri", mreps), ("valgrind", vreps)):
            for r in rr:
                case = g.cases.get(r["case"])
                if case is None:
                    continue
                if r["harness"]:
                    inconclusive.append("case %d: %s" % (r["case"], r["harness"][0]))
                    continue
                evaluations += r["events"]
                functional_noted += r["viol_count"]
                sc = site_classes(case, hook.get(case.id, {}).get("resolved"), r["items"])
                for k, v in sc.items():
                    sites[label][k] = sites[label].get(k, 0) + v
                if sc:
                    reached_cases.add((label, case.key()))
                if label == "miri" and len(samples) < 5 and r["events"]:
                    samples.append({"case": case.describe(), "instrument": "miri", "events": r["events"],
                                    "items": r["items"], "unsafe_sites": sc})
                for nm in r["nonmember"][:3]:
                    sig = "C02|nonmember|%s|%s" % (case.decl.key(), case.cfg.key())
                    violations.append(Violation(prop, sig,
                        "case %d %s %s: %s" % (case.id, case.decl.short(), case.cfg.short()[:160], nm),
                        case_payload(case, {"kind": "nonmember", "event": nm, "budget": tier, "instrument": label})))
        for label, ab in (("native", aborts), ("miri", maborts), ("valgrind", vaborts)):
            for a in ab:
                if a["case"] is None:
                    inconclusive.append("%s shard %s: %s: %s" % (label, a.get("shard"), a["how"], a["output"][-400:]))
                    continue
                case = g.cases.get(a["case"])
                if a["how"] in ("miri-unsupported", "timeout", "harness", "case-timeout"):
                    inconclusive.append("%s: case %d: %s: %s" % (label, a["case"], a["how"], a["output"][-400:]))
                    continue
                sig = "C02|%s|%s|%s" % (a["how"], case.decl.key(), case.cfg.key())
                violations.append(Violation(prop, sig,
                    "case %d %s %s: %s reported under %s: %s" % (
                        case.id, case.decl.short(), case.cfg.short()[:160], a["how"], label,
                        " | ".join(l for l in a["output"].splitlines() if "error" in l.lower() or "Undefined" in l or "panicked" in l)[:500]),
                    case_payload(case, {"kind": "abort", "how": a["how"], "instrument": label,
                                        "output": a["output"][-4000:], "budget": tier})))
        coverage = {
            "evaluations": evaluations,
            "distinct_nontrivial": len({k for _, k in reached_cases}),
            "rule": RULE,
            "samples": samples,
            "cases_native_debug_ub_checks": len(reps),
            "cases_under_miri": len(mreps),
            "cases_under_valgrind": len(vreps),
            "events_native": sum(r["events"] for r in reps),
            "events_miri": sum(r["events"] for r in mreps),
            "events_valgrind": sum(r["events"] for r in vreps),
            "unsafe_site_reach": sites,
            "miri_processes": min(16, len(sel)),
            "miri_build_s": round(miri_s, 1),
            "phase_seconds": phase,
            "functional_mismatches_left_to_their_own_properties": functional_noted,
            "unbuildable_cases": sorted(set(unbuildable) | set(g.dropped)),
            "forbidden_configurations_probed": forbidden_cov,
        }
        need = ["transmute:try_from(gapless)", "transmute:try_from(holes)",
                "transmute:next/next_back(gapless)", "unwrap_unchecked+transmute:next/next_back(holes)",
                "transmute:from_str-table(gapless)", "transmute:iter-range",
                "unwrap_unchecked:as_str-table(holes)", "assume_init:range(holes)"]
        for k in need:
            if sites["miri"].get(k, 0) == 0:
                inconclusive.append("unsafe-site class %s was not reached under Miri" % k)
    except Inconclusive as e:
        inconclusive.append(str(e))
    return finish(prop, tier, seed, t0, violations, inconclusive, coverage, ASSUMPTIONS + [
        "Miri and the debug UB checks only see executed paths; memcheck cannot see invalid enum values",
    ])
