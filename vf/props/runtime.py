"""Drivers for the absolute-oracle runtime properties C01, C03-C08."""
from __future__ import annotations

import time

from .. import build, emit
from ..build import Inconclusive, Lock
from ..rungroup import RunGroup
from ..verdict import Violation, finish

ITEMS = {
    "C01": ["try_from", "TryFrom", "into", "Into"],
    "C03": ["as_str", "Display", "Debug", "IntoStr"],
    "C04": ["from_str", "FromStr"],
    "C05": ["MIN", "MAX", "next", "next_back"],
    "C06": ["iter"],
    "C07": ["range"],
    "C08": ["names"],
}

RULES = {
    "C01": "cases = (declaration, configuration) of the runtime corpus (catalogue shapes x reprs, C09/C16/C18 families, large enums, seeded random declarations); probes: every value of 8/16-bit reprs, else type limits, i64 limits, both neighbours of every run boundary, every variant, random values in holes and anywhere; non-trivial = not one of the two test-suite enums and probes fell in >= 3 of {below_min, run_interior, run_boundary, hole, above_max}",
    "C03": "cases = (declaration, resolved as_str mode); every variant rendered through as_str/Display/Debug/IntoStr and compared byte-wise with the model name; non-trivial = min != 0 or holes or renames present",
    "C04": "cases = (declaration, from_str mode, FromStr mode); strings = all names, single-edit neighbours (delete/insert/substitute/case/space/prefix/suffix), identifiers of renamed variants, empty and random strings; non-trivial = min != 0 or holes or renames present",
    "C05": "cases = declaration; MIN, MAX, next, next_back for every variant plus bounded walks from MIN by next and from MAX by next_back; non-trivial = >= 2 variants and (holes or a run at a type limit or non-ascending declaration order)",
    "C06": "cases = (declaration, resolved iter mode); histories = fixed family + all front/back interleavings for small n + seeded random histories of next/next_back/nth/nth_back/len/size_hint ending in fold/rfold/last/count/collect/rev; counted: histories with >= 3 operations mixing both ends or using nth*",
    "C07": "cases = (declaration, resolved iter mode); all ordered pairs (a, b) for small n, boundary + sampled pairs otherwise; per pair 4 fixed and several random histories against the model slice; counted: (case, a, b) with a != b",
    "C08": "cases = (declaration, configuration); names() under the same histories as iter(), iter().zip(names()) against (variant, as_str) pairs; counted: histories with >= 3 operations mixing both ends or using nth*",
}

ASSUMPTIONS = [
    "the generator's model (implicit = previous + 1, name = rename or identifier) is checked against the compiler's `v as repr` for every variant of every case; a mismatch makes the run inconclusive",
    "sampled, not exhaustive, over declarations / configurations; 64/128-bit try_from inputs are sampled",
    "the adapter functions (one line per item) and monitor_core::run_history are trusted glue",
]


def enables(case, prop: str) -> bool:
    for it in ITEMS[prop]:
        if case.cfg.has(it):
            return True
    return False


def case_payload(case, extra=None) -> dict:
    p = case.describe()
    p["source"] = emit.case_module(case)
    p["no_std"] = case.context.startswith("nostd")
    if extra:
        p.update(extra)
    return p


def is_suite_shape(case) -> bool:
    d = case.decl
    return d.repr == "i8" and sorted(v.value for v in d.variants) in ([0, 1, 2, 3], [0, 1, 2, 9])


def nontrivial_case(prop: str, case, rep) -> int:
    d = case.decl
    vals = d.values()
    holes = not d.gapless()
    renames = any(v.rename is not None for v in d.variants)
    if prop == "C01":
        if is_suite_shape(case):
            return 0
        classes = [k for k, v in rep["classes"].items() if v > 0]
        return 1 if len(classes) >= 3 else 0
    if prop in ("C03", "C04"):
        return 1 if (vals[0] != 0 or holes or renames) and rep["events"] > 0 else 0
    if prop == "C05":
        from ..spec import repr_range
        lo, hi = repr_range(d.repr)
        order = [v.value for v in d.variants]
        at_limit = vals[0] == lo or vals[-1] == hi
        return 1 if len(vals) >= 2 and (holes or at_limit or order != sorted(order)) and rep["events"] > 0 else 0
    if prop in ("C06", "C08"):
        return rep["nontrivial"]
    if prop == "C07":
        return rep["classes"].get("pairs_distinct", 0)
    return 0


def confirm_dropped(g: RunGroup, prop: str, want):
    """dropped (unbuildable) cases which enable one of the property's items, confirmed alone"""
    violations, notes = [], []
    planned = g.all_planned()
    cands = [planned[cid] for cid in g.dropped if cid in planned and want(planned[cid])]
    # confirm a bounded number alone (the rest are reported as unbuildable_cases only)
    seen_sig = set()
    for case in cands:
        errs = g.dropped[case.id]
        msg = errs[0]["message"]
        sig = "%s|does-not-compile|%s|%s" % (prop, case.decl.shape + ":" + case.decl.repr, msg[:60])
        if sig in seen_sig:
            notes.append(case.id)
            continue
        seen_sig.add(sig)
        if len(seen_sig) > 12:
            notes.append(case.id)
            continue
        ok, errors, how = g.confirm_dropped(case)
        if ok:
            notes.append(case.id)
            continue
        violations.append(Violation(
            prop, sig,
            "case %d (%s; %s) enables %s but does not compile: %s" % (
                case.id, case.decl.short(), case.cfg.short()[:200],
                [i for i in ITEMS.get(prop, []) if case.cfg.has(i)], errors[0]["message"][:300]),
            case_payload(case, {"kind": "does-not-compile",
                                "errors": [e["rendered"][:1500] for e in errors[:3]]})))
    return violations, notes


def run(prop: str, tier: str, seed: int) -> int:
    t0 = time.time()
    violations, inconclusive = [], []
    coverage = {}
    try:
        g = RunGroup(tier, seed)
        with Lock(g.root + ".lock"):
            g.prepare()
            reps, aborts = g.run([prop], tier)
            dv, unbuildable = confirm_dropped(g, prop, lambda c: enables(c, prop))
        violations += dv
        evaluations = 0
        nontriv = 0
        items = {}
        classes = {}
        states = 0
        histories = 0
        samples = []
        cases_with_events = 0
        by_mode = {}
        for r in reps:
            case = g.cases.get(r["case"])
            if case is None:
                continue
            if r["harness"]:
                inconclusive.append("case %d: %s" % (r["case"], r["harness"][0]))
                continue
            evaluations += r["events"]
            if r["events"]:
                cases_with_events += 1
            for k, v in r["items"].items():
                items[k] = items.get(k, 0) + v
            for k, v in r["classes"].items():
                classes[k] = classes.get(k, 0) + v
            states += r["states"]
            histories += r["histories"]
            nontriv += nontrivial_case(prop, case, r)
            if prop in ("C06", "C07") and r["events"]:
                hk = g.hooklog().get(case.id, {}).get("resolved")
                mode = hk["features"]["iter"]["mode"] if hk else "?"
                mode += ":gapless" if case.decl.gapless() else ":holes"
                by_mode[mode] = by_mode.get(mode, 0) + r["events"]
            if prop in ("C03",) and r["events"]:
                hk = g.hooklog().get(case.id, {}).get("resolved")
                mode = hk["features"]["as_str"]["mode"] if hk else "?"
                mode += ":gapless" if case.decl.gapless() else ":holes"
                by_mode[mode] = by_mode.get(mode, 0) + r["events"]
            if prop in ("C04",) and r["events"]:
                hk = g.hooklog().get(case.id, {}).get("resolved")
                if hk:
                    mode = "fn=%s,trait=%s" % (
                        hk["features"]["from_str"]["mode"] if hk["features"]["from_str"]["enabled"] else "-",
                        hk["features"]["FromStr"]["mode"] if hk["features"]["FromStr"]["enabled"] else "-")
                    mode += ":gapless" if case.decl.gapless() else ":holes"
                    by_mode[mode] = by_mode.get(mode, 0) + r["events"]
            if r["events"] and len(samples) < 6 and (r["case"] % 7 == seed % 7 or len(reps) < 40):
                samples.append({"case": case.describe(), "observed": r["samples"][:2],
                                "events": r["events"]})
            for v in r["viol"][:3]:
                sig = "%s|%s|%s|%s|%s" % (prop, v["item"], case.decl.key(), case.cfg.key(), case.context)
                violations.append(Violation(
                    prop, sig,
                    "case %d %s %s [%s]: %s" % (case.id, case.decl.short(), case.cfg.short()[:160],
                                                 case.context, v["detail"]),
                    case_payload(case, {"kind": "runtime", "item": v["item"], "event": v["detail"],
                                        "budget": tier})))
        for a in aborts:
            if a["case"] is None:
                inconclusive.append("shard %s: %s: %s" % (a.get("shard"), a["how"], a["output"][-400:]))
                continue
            case = g.cases.get(a["case"])
            sig = "%s|abort|%s|%s|%s" % (prop, case.decl.key(), case.cfg.key(), a["how"])
            violations.append(Violation(
                prop, sig,
                "case %d %s %s: process aborted (%s) while checking %s: %s" % (
                    case.id, case.decl.short(), case.cfg.short()[:160], a["how"], prop,
                    a["output"][-300:].replace("\n", " | ")),
                case_payload(case, {"kind": "abort", "how": a["how"], "output": a["output"][-3000:],
                                    "budget": tier})))
        if not samples and reps:
            for r in reps:
                if r["events"]:
                    samples.append({"case": g.cases[r["case"]].describe(), "observed": r["samples"][:2]})
                    break
        coverage = {
            "evaluations": evaluations,
            "distinct_nontrivial": nontriv,
            "rule": RULES[prop],
            "samples": samples,
            "cases_built": len(g.cases),
            "cases_with_events": cases_with_events,
            "events_per_item": items,
            "probe_or_shape_classes": classes,
            "events_by_resolved_mode": by_mode,
            "distinct_iterator_states": states,
            "histories": histories,
            "unbuildable_cases": sorted(set(unbuildable) | set(g.dropped)),
            "build_s": round(g.build_s, 1),
            "instrument": "native debug build (rustc debug UB checks, overflow checks, bounds checks)",
        }
        for it in ITEMS[prop]:
            if items.get(it, 0) == 0:
                inconclusive.append("no event observed for item %s" % it)
    except Inconclusive as e:
        inconclusive.append(str(e))
    return finish(prop, tier, seed, t0, violations, inconclusive, coverage, ASSUMPTIONS)
