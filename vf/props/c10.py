"""C10: every documented combination of features, modes and parameters compiles (group cfg),
helper items are generated automatically, split == joined, and every enabled item then
satisfies its own guarantee (the runtime monitors run over the same cases)."""
from __future__ import annotations

import time

from .. import corpus, hookcheck
from ..build import Inconclusive, Lock
from ..rungroup import RunGroup
from ..verdict import Violation, finish
from .runtime import case_payload

RULE = ("cases = configurations drawn from the documented catalogue (src/lib.rs: 17 features, modes of as_str/from_str/"
        "FromStr/iter, name/vis/struct_name parameters): every atom alone, pairs, triples, all-but-one sets, random subsets "
        "with random parameters and random splits over several attributes, on 6 enum shapes (gapless small/large, holes "
        "small/large, holes with negative runs, run at the type minimum); each is built with cargo build together with an "
        "adapter that uses every enabled item (so associated consts are evaluated), failures are recompiled alone; the "
        "runtime monitors C01,C03-C08 then run over every case; split-vs-joined twins must have identical expansion text in "
        "the hook log; counted: distinct (declaration, configuration incl. parameters and split)")


def run(tier: str, seed: int) -> int:
    prop = "C10"
    t0 = time.time()
    violations, inconclusive = [], []
    coverage = {}
    try:
        g = RunGroup(tier, seed, name="cfg", planner=corpus.cfg_corpus)
        with Lock(g.root + ".lock"):
            g.prepare()
            hook = g.hooklog()
            planned = g.all_planned()
            # 1. acceptance
            seen_sig = set()
            confirmed = 0
            for cid, errs in sorted(g.dropped.items()):
                c = planned.get(cid)
                if c is None:
                    continue
                msg = errs[0]["message"]
                atoms = c.tags.get("atoms")
                if atoms and [list(a) for a in atoms] == [["iter", "match"]]:
                    # the finding is identified by the input (this one configuration), not by the message text
                    sig = "C10|rejects|iter(mode=\"match\")"
                else:
                    sig = "C10|rejects|%s|%s|%s" % (c.decl.shape, c.cfg.short()[:200], msg[:60])
                if sig in seen_sig:
                    continue
                seen_sig.add(sig)
                if confirmed < 20:
                    ok, errors, how = g.confirm_dropped(c)
                    confirmed += 1
                    if ok:
                        continue
                else:
                    errors = errs
                violations.append(Violation(
                    prop, sig,
                    "documented configuration does not compile on %s: %s -- %s" % (
                        c.decl.short(), c.cfg.short()[:300], errors[0]["message"][:300]),
                    case_payload(c, {"kind": "does-not-compile", "errors": [e["rendered"][:1500] for e in errors[:3]]})))
            # 2. every enabled item satisfies its own guarantee
            reps, aborts = g.run(["C01", "C03", "C04", "C05", "C06", "C07", "C08"], "quick",
                                 sets={"rand_hist": 30, "pairs_all_n": 12, "pairs_sample": 60, "range_hist": 1})
        events = 0
        for r in reps:
            c = g.cases.get(r["case"])
            if c is None:
                continue
            if r["harness"]:
                inconclusive.append("case %d: %s" % (r["case"], r["harness"][0]))
                continue
            events += r["events"]
            for v in r["viol"][:2]:
                violations.append(Violation(
                    prop, "C10|item-guarantee|%s|%s|%s" % (v["item"], c.decl.key(), c.cfg.key()),
                    "under configuration %s on %s item %s breaks its guarantee (%s): %s" % (
                        c.cfg.short()[:200], c.decl.short(), v["item"], r["prop"], v["detail"]),
                    case_payload(c, {"kind": "runtime", "item": v["item"], "event": v["detail"], "prop": r["prop"]})))
        for a in aborts:
            if a["case"] is None:
                inconclusive.append("shard %s: %s: %s" % (a.get("shard"), a["how"], a["output"][-400:]))
                continue
            c = g.cases[a["case"]]
            violations.append(Violation(
                prop, "C10|abort|%s|%s" % (c.decl.key(), c.cfg.key()),
                "case %d %s %s aborted (%s)" % (c.id, c.decl.short(), c.cfg.short()[:200], a["how"]),
                case_payload(c, {"kind": "abort", "how": a["how"], "output": a["output"][-3000:]})))
        # 3. hook-log oracle on every expansion
        hook_checked = 0
        for cid, c in g.cases.items():
            rec = hook.get(cid)
            if rec is None:
                inconclusive.append("no hook record for case %d" % cid)
                continue
            hook_checked += 1
            for e in hookcheck.check_record(c, rec)[:2]:
                violations.append(Violation(
                    prop, "C10|hook|%s|%s|%s" % (c.decl.key(), c.cfg.key(), e[:50]),
                    "expansion log of case %d (%s; %s): %s" % (c.id, c.decl.short(), c.cfg.short()[:200], e),
                    case_payload(c, {"kind": "hook", "event": e})))
        # 4. split == joined
        groups = {}
        for c in g.cases.values():
            k = c.tags.get("split_group")
            if k:
                groups.setdefault(k, []).append(c)
        split_pairs = 0
        for k, members in groups.items():
            texts = {}
            for c in members:
                rec = hook.get(c.id, {})
                out = rec.get("end", {}).get("output")
                if out is None:
                    continue
                texts.setdefault(out, []).append(c)
            split_pairs += max(0, sum(len(v) for v in texts.values()) - 1)
            if len(texts) > 1:
                (ta, ca), (tb, cb) = list(texts.items())[:2]
                i = next((i for i, (x, y) in enumerate(zip(ta, tb)) if x != y), min(len(ta), len(tb)))
                violations.append(Violation(
                    prop, "C10|split-differs|%s|%s" % (ca[0].decl.key(), ca[0].cfg.key()),
                    "splitting the feature list over several attributes changes the expansion: %s versus %s; first difference at char %d: %r / %r" % (
                        ca[0].cfg.short()[:200], cb[0].cfg.short()[:200], i, ta[max(0, i - 40):i + 40], tb[max(0, i - 40):i + 40]),
                    {"kind": "split", "a": case_payload(ca[0]), "b": case_payload(cb[0])}))
        parts = {}
        distinct = set()
        for c in planned.values():
            parts[c.tags["part"]] = parts.get(c.tags["part"], 0) + 1
            distinct.add((c.decl.key(), c.cfg.key(), tuple(c.cfg.split or ())))
        samples = []
        for c in list(planned.values())[seed % 13::131][:6]:
            samples.append({"case": c.describe(), "part": c.tags["part"],
                            "outcome": "compiled" if c.id in g.cases else "rejected"})
        coverage = {
            "evaluations": len(planned),
            "distinct_nontrivial": len(distinct),
            "rule": RULE,
            "samples": samples,
            "configurations_per_part": parts,
            "compiled": len(g.cases),
            "rejected": len(g.dropped),
            "runtime_events_over_cfg_cases": events,
            "hook_records_checked": hook_checked,
            "split_vs_joined_comparisons": split_pairs,
            "build_s": round(g.build_s, 1),
        }
    except Inconclusive as e:
        inconclusive.append(str(e))
    return finish(prop, tier, seed, t0, violations, inconclusive, coverage, [
        "the documented catalogue is transcribed by hand from src/lib.rs into vf/spec.py and vf/corpus.py",
        "sampled pairs / triples / subsets (quick); every single atom on every shape always",
        "vis = \"\" items are reached through an adapter nested in the defining module",
    ])
