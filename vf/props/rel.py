"""Relational monitors C09 (modes / auto), C16 (contexts), C18 (order / repr): model-space
transcripts of every enabled item must be identical within a comparison group."""
from __future__ import annotations

import time

from ..build import Inconclusive, Lock
from ..rungroup import RunGroup
from ..verdict import Violation, finish
from .runtime import case_payload

RULES = {
    "C09": "groups = all cases of the runtime corpus sharing one declaration and context (mode product / pairwise subset of as_str x from_str x FromStr x iter modes with every feature on, auto-steering subsets); for every item the FNV digest of its model-space transcript (fixed script derived from the value set) must be equal in all configurations enabling it; counted: unordered pairs of cases which differ in >= 1 resolved mode and share >= 1 item; the hook log must show every outcome of auto resolution",
    "C16": "groups = one declaration + configuration replicated over the contexts plain / no_implicit_prelude / hostile shadowing module / no_std crate / no_std + hostile; every context must compile and produce identical transcripts; counted: pairs of cases in different contexts sharing >= 1 item",
    "C18": "groups = one value->name map declared in ascending / descending / random order and in every repr which can hold it; transcripts restricted to the common probe domain must be identical; counted: pairs differing in order or repr",
}

ASSUMPTIONS = [
    "transcripts are compared by 64-bit FNV-1a digest; on inequality both transcripts are re-read in full and the first differing line is the witness",
    "the script depends only on the sorted (discriminant, name) list and VERIF_SEED",
    "sampled declarations and configurations; relational oracle needs no reference model",
]

AUTO_OUTCOMES = {
    "iter": ["range", "table", "table_inline", "next_and_back"],
    "as_str": ["match", "table"],
    "from_str": ["match", "table"],
    "FromStr": ["match", "table"],
}


def resolved_modes(hk):
    if not hk:
        return None
    f = hk["features"]
    return tuple((k, f[k]["mode"]) for k in ("as_str", "from_str", "FromStr", "iter") if f[k]["enabled"])


def c09_key(c):
    # the probe domain is part of the script: only cases recorded under the same one are comparable
    return "%s|%s|%s|%s" % (c.decl.key(), c.context, c.probe_lo, c.probe_hi)


def groups_for(prop: str, g: RunGroup):
    groups = {}
    for c in g.cases.values():
        if prop == "C09":
            key = c09_key(c)
        elif prop == "C16":
            key = c.tags.get("c16")
        else:
            key = c.tags.get("c18")
        if key is None:
            continue
        groups.setdefault(key, []).append(c)
    return {k: v for k, v in groups.items() if len(v) >= 2}


def differs(prop, a, b, hook) -> bool:
    if prop == "C09":
        return resolved_modes(hook.get(a.id, {}).get("resolved")) != resolved_modes(hook.get(b.id, {}).get("resolved"))
    if prop == "C16":
        return a.context != b.context
    return a.decl.repr != b.decl.repr or [v.ident for v in a.decl.variants] != [v.ident for v in b.decl.variants]


def run(prop: str, tier: str, seed: int) -> int:
    t0 = time.time()
    violations, inconclusive = [], []
    coverage = {}
    try:
        g = RunGroup(tier, seed)
        with Lock(g.root + ".lock"):
            g.prepare()
            hook = g.hooklog()
            reps, aborts = g.run(["REL"], tier)
            dig = {r["case"]: r for r in reps}
            groups = groups_for(prop, g)
            planned = g.all_planned()
            # compile-outcome part: a member of a group which does not build
            for cid, errs in g.dropped.items():
                c = planned.get(cid)
                if c is None:
                    continue
                gkey = {"C09": c09_key(c), "C16": c.tags.get("c16"),
                        "C18": c.tags.get("c18")}[prop]
                if gkey is None or gkey not in groups:
                    continue
                ok, errors, how = g.confirm_dropped(c)
                if not ok:
                    violations.append(Violation(
                        prop, "%s|does-not-compile|%s|%s|%s" % (prop, c.decl.key(), c.cfg.key(), c.context),
                        "case %d [%s] %s %s does not compile while %d other members of its group do: %s" % (
                            c.id, c.context, c.decl.short(), c.cfg.short()[:160], len(groups[gkey]),
                            errors[0]["message"][:300]),
                        case_payload(c, {"kind": "does-not-compile",
                                         "errors": [e["rendered"][:1500] for e in errors[:3]]})))
            pairs = 0
            nontriv = 0
            items_compared = 0
            samples = []
            mismatches = []
            for key, members in groups.items():
                members = [c for c in members if c.id in dig and not dig[c.id]["harness"]]
                if len(members) < 2:
                    continue
                # count pairs
                sig = {}
                for c in members:
                    if prop == "C09":
                        s = resolved_modes(hook.get(c.id, {}).get("resolved"))
                    elif prop == "C16":
                        s = c.context
                    else:
                        s = (c.decl.repr, tuple(v.ident for v in c.decl.variants))
                    sig.setdefault(s, []).append(c)
                n = len(members)
                pairs += n * (n - 1) // 2
                same = sum(len(v) * (len(v) - 1) // 2 for v in sig.values())
                nontriv += n * (n - 1) // 2 - same
                # compare digests item by item
                items = set()
                for c in members:
                    items.update(dig[c.id]["digests"].keys())
                for item in sorted(items):
                    buckets = {}
                    for c in members:
                        d = dig[c.id]["digests"].get(item)
                        if d is None:
                            continue
                        buckets.setdefault(tuple(d), []).append(c)
                    total = sum(len(v) for v in buckets.values())
                    if total >= 2:
                        items_compared += total - 1
                    if len(buckets) > 1:
                        ordered = sorted(buckets.values(), key=lambda v: -len(v))
                        for minority in ordered[1:]:
                            mismatches.append((item, ordered[0][0], minority[0], len(minority)))
                if len(samples) < 4 and len(members) >= 2:
                    a, b = members[0], members[-1]
                    samples.append({"group": key, "members": len(members),
                                    "a": a.describe(), "b": b.describe(),
                                    "items_compared": sorted(set(dig[a.id]["digests"]) & set(dig[b.id]["digests"])),
                                    "digests_a": {k: v[0] for k, v in list(dig[a.id]["digests"].items())[:4]}})
            for item, a, b, count in mismatches[:40]:
                ta = g.transcript(a.id, item)
                tb = g.transcript(b.id, item)
                k = 0
                while k < min(len(ta), len(tb)) and ta[k] == tb[k]:
                    k += 1
                la = ta[k] if k < len(ta) else "<end of transcript>"
                lb = tb[k] if k < len(tb) else "<end of transcript>"
                ctxline = ""
                for j in range(k, -1, -1):
                    if j < len(ta) and (ta[j].startswith("history") or ta[j].startswith("range(")):
                        ctxline = ta[j]
                        break
                violations.append(Violation(
                    prop, "%s|%s|%s|%s|%s|%s" % (prop, item, a.decl.key(), a.cfg.key(), b.decl.key(), b.cfg.key()),
                    "item %s behaves differently in case %d [%s; %s; %s] and case %d [%s; %s; %s] (%d cases on the minority side): line %d: %r vs %r %s" % (
                        item, a.id, a.decl.short(), a.cfg.short()[:120], a.context,
                        b.id, b.decl.short(), b.cfg.short()[:120], b.context, count, k, la, lb,
                        ("in " + ctxline) if ctxline else ""),
                    {"kind": "relational", "item": item, "line": k, "a": case_payload(a), "b": case_payload(b),
                     "transcript_a": ta[max(0, k - 5):k + 3], "transcript_b": tb[max(0, k - 5):k + 3]}))
            for a in aborts:
                if a["case"] is None:
                    inconclusive.append("shard %s: %s: %s" % (a.get("shard"), a["how"], a["output"][-400:]))
                else:
                    c = g.cases[a["case"]]
                    violations.append(Violation(
                        prop, "%s|abort|%s|%s" % (prop, c.decl.key(), c.cfg.key()),
                        "case %d %s %s aborted (%s) while recording transcripts" % (
                            c.id, c.decl.short(), c.cfg.short()[:160], a["how"]),
                        case_payload(c, {"kind": "abort", "how": a["how"], "output": a["output"][-3000:]})))
            for r in reps:
                if r["harness"]:
                    inconclusive.append("case %d: %s" % (r["case"], r["harness"][0]))
            coverage = {
                "evaluations": sum(r["events"] for r in reps),
                "distinct_nontrivial": nontriv,
                "rule": RULES[prop],
                "samples": samples,
                "groups": len(groups),
                "pairs_compared": pairs,
                "item_digest_comparisons": items_compared,
                "cases": sum(len(v) for v in groups.values()),
                "unbuildable_cases": sorted(g.dropped),
            }
            if prop == "C09":
                seen = {k: {} for k in AUTO_OUTCOMES}
                for c in g.cases.values():
                    hk = hook.get(c.id, {}).get("resolved")
                    if not hk:
                        continue
                    for feat in AUTO_OUTCOMES:
                        if c.cfg.has(feat) and c.cfg.mode(feat) == "auto":
                            m = hk["features"][feat]["mode"]
                            seen[feat][m] = seen[feat].get(m, 0) + 1
                            if m == "auto":
                                violations.append(Violation(
                                    prop, "C09|unresolved-auto|%s" % feat,
                                    "hook log: feature %s left in auto mode after resolution in case %d" % (feat, c.id),
                                    case_payload(c, {"kind": "hook"})))
                coverage["auto_resolution_outcomes_seen"] = seen
                # which outcome auto picks "may change at any time": the outcomes seen are evidence, not a
                # requirement; only a feature whose auto mode was never exercised at all is inconclusive
                coverage["auto_resolution_outcomes_missing"] = [
                    "%s->%s" % (feat, o) for feat, outs in AUTO_OUTCOMES.items() for o in outs if seen[feat].get(o, 0) == 0]
                for feat in AUTO_OUTCOMES:
                    if not seen[feat]:
                        inconclusive.append("auto mode of %s never exercised" % feat)
            if prop == "C16":
                ctxs = {}
                for v in groups.values():
                    for c in v:
                        ctxs[c.context] = ctxs.get(c.context, 0) + 1
                coverage["cases_per_context"] = ctxs
                for need in ("plain", "noprelude", "hostile", "nostd", "nostd_hostile"):
                    if ctxs.get(need, 0) == 0:
                        inconclusive.append("context %s not exercised" % need)
            if prop == "C18":
                reprs = {}
                for v in groups.values():
                    for c in v:
                        reprs[c.decl.repr] = reprs.get(c.decl.repr, 0) + 1
                coverage["cases_per_repr"] = reprs
    except Inconclusive as e:
        inconclusive.append(str(e))
    return finish(prop, tier, seed, t0, violations, inconclusive, coverage, ASSUMPTIONS)
