"""C12 (out-of-domain declarations), C13 (invalid configuration), C14 (sorted):
compile-outcome monitors over generated should-fail / should-compile items."""
from __future__ import annotations

import itertools
import random
import time

from ..build import Inconclusive, Lock
from ..compilegroup import CompileGroup, Item
from ..spec import rust_str
from ..verdict import Violation, finish

HEAD = "use enum_tools::EnumTools;\n"
FEATURE_SETS = [
    "into",
    "try_from, next",
    "as_str, iter, names",
    "as_str, from_str, into, MAX, MIN, next, next_back, try_from, Debug, Display, FromStr, Into, IntoStr, TryFrom, iter, names, range",
    "MIN, MAX",
    "TryFrom, Into",
    "-",  # bare derive, no enum_tools attribute at all
    "names, iter, try_from, next, into",
    "as_str(mode = \"table\"), from_str(mode = \"table\"), names",
]


def item_text(pre: str, attrs: str, body: str, derive=True, feats=None) -> str:
    d = "#[derive(Clone, Copy, EnumTools)]" if derive else "#[derive(Clone, Copy)]"
    f = ("#[enum_tools(%s)]\n" % feats) if (derive and feats and feats != "-") else ""
    return "%s%s\n%s\n%s%s\n%s\n" % (HEAD if derive else "", pre, d, f, attrs, body)


def strip_variant_attrs(body: str) -> str:
    import re
    return re.sub(r"#\[enum_tools[^\]]*\]\s*", "", body)


# ---------------------------------------------------------------------------------------
# C12

NONLITERAL = [
    # (name, expression template with {v} = intended value, needs: "any" | "signed" | "u8", pre items)
    ("const", "K", "any", "const K: {r} = {v};"),
    ("assoc_const", "{r}::MAX", "any", ""),
    ("add", "{a} + {b}", "any", ""),
    ("shift", "1 << 2", "any", ""),
    ("cast", "{v} as {r}", "any", ""),
    ("paren", "({v})", "any", ""),
    ("neg_paren", "-({v})", "signed", ""),
    ("double_neg_paren", "-(-{v})", "signed", ""),
    ("double_neg", "- -{v}", "signed", ""),
    ("block", "{{ {v} }}", "any", ""),
    ("byte", "b'a'", "u8", ""),
    ("char_cast", "'a' as {r}", "u8", ""),
    ("bool_cast", "true as {r}", "any", ""),
    ("not", "!0", "any", ""),
    ("macro", "lit!()", "any", "macro_rules! lit { () => { {v} }; }"),
    ("const_plus", "K + 1", "any", "const K: {r} = {vm1};"),
    ("bitor", "{v} | 0", "any", ""),
    ("rem", "{v} % 100", "any", ""),
    ("index", "[{v}][0]", "any", ""),
    ("if", "if true {{ {v} }} else {{ 0 }}", "any", ""),
    ("const_block", "{{ const X: {r} = {v}; X }}", "any", ""),
    ("size_of", "core::mem::size_of::<u32>() as {r}", "any", ""),
    ("mul", "{v} * 1", "any", ""),
    ("sub", "{b} - {a}", "any", ""),
    ("paren_neg", "(-{v})", "signed", ""),
    ("neg_cast", "-{v} as {r}", "signed", ""),
    ("path_lit", "<{r}>::MIN", "any", ""),
    ("from_fn", "{r}::from_le({v})", "any", ""),
    ("tuple_field", "({v},).0", "any", ""),
]

TYPE_ERRORS = [  # not valid Rust by themselves: rejected whatever the derive does (no control)
    ("float", "2.0"), ("char", "'a'"), ("string", "\"1\""), ("unit", "()"),
]


def c12_items(tier: str, seed: int):
    rng = random.Random(1200 + seed)
    items = []
    nid = [0]

    def add(op, pre, attrs, body, control_body=None, control=True, feats=None, kind="enum"):
        nid[0] += 1
        fs = feats or FEATURE_SETS[nid[0] % len(FEATURE_SETS)]
        text = item_text(pre, attrs, body, True, fs)
        ctl = item_text(pre, attrs, control_body or body, False) if control else None
        items.append(Item(nid[0], text, "reject", {"op": op, "body": (attrs + " " + body)[:300], "features": fs},
                          control=ctl))

    # 1. not an enum
    add("struct_unit", "", "", "pub struct E;")
    add("struct_tuple", "", "", "pub struct E(u8);")
    add("struct_named", "", "#[repr(C)]", "pub struct E { a: u8 }")
    add("struct_named_norepr", "", "", "pub struct E { a: u8, b: u8 }")
    add("union", "", "#[repr(C)]", "pub union E { a: u8, b: u8 }")
    add("union_norepr", "", "", "pub union E { a: u8 }")
    # 2. no variants
    add("no_variants_norepr", "", "", "pub enum E {}")
    add("no_variants", "", "#[repr(u8)]", "pub enum E {}", control=False)
    # 3. variants with fields
    bases = [("u8", "A = 1", "C = 5"), ("i16", "A = -3", "C"), ("u64", "A", "C = 9")]
    fields = [("tuple", "B(u8)"), ("struct", "B { x: u8 }"), ("empty_tuple", "B()"), ("empty_struct", "B {}"),
              ("tuple_disc", "B(u8) = 3"), ("empty_tuple_disc", "B() = 3"), ("two_fields", "B(u8, u16)"),
              ("unit_ty_field", "B(())")]
    for r, first, last in bases:
        for fname, f in fields:
            for pos in range(3):
                vs = [first, last]
                vs.insert(pos, f)
                # a leading implicit variant after a field variant is fine for rustc
                add("field_%s@%d" % (fname, pos), "", "#[repr(%s)]" % r, "pub enum E { %s }" % ", ".join(vs))
                if fname.startswith("empty") and pos == 1:
                    # variants with an *empty* field list: under every feature set (some never name the variant)
                    for fs in FEATURE_SETS:
                        add("field_%s_all_sets" % fname, "", "#[repr(%s)]" % r, "pub enum E { %s }" % ", ".join(vs), feats=fs)
    # 4. non-literal discriminants, at every position of several bases
    reprs = ["u8", "i8", "u16", "i16", "u32", "i32", "u64", "i64", "u128", "i128", "usize", "isize"] if tier != "quick" else ["u8", "i8", "i64"]
    for r in reprs:
        signed = r.startswith("i")
        for name, tmpl, needs, pre in NONLITERAL:
            if needs == "signed" and not signed:
                continue
            if needs == "u8" and r != "u8":
                continue
            positions = range(3) if tier != "quick" else [rng.randrange(3)]
            for pos in positions:
                v = 21
                expr = tmpl.format(v=v, a=10, b=11, r=r, vm1=v - 1)
                p = pre.replace("{r}", r).replace("{vm1}", str(v - 1)).replace("{v}", str(v))
                vals = ["A = 100", "B = 101", "C = 102"]
                vals[pos] = "%s = %s" % ("ABC"[pos], expr)
                add("nonliteral_%s@%d" % (name, pos), p, "#[repr(%s)]" % r, "pub enum E { %s }" % ", ".join(vals))
        for name, expr in TYPE_ERRORS:
            add("typeerror_%s" % name, "", "#[repr(%s)]" % r, "pub enum E { A = 1, B = %s, C = 7 }" % expr,
                control=False)
    # 5. values outside i64
    big = [
        ("u64", "A = 9223372036854775808"), ("u64", "A = 18446744073709551615"),
        ("u64", "A = 0x8000_0000_0000_0000"), ("u128", "A = 9223372036854775808"),
        ("u128", "A = 170141183460469231731687303715884105728"),
        ("u128", "A = 340282366920938463463374607431768211455"),
        ("i128", "A = -9223372036854775809"), ("i128", "A = 9223372036854775808"),
        ("i128", "A = -170141183460469231731687303715884105728"),
        ("usize", "A = 9223372036854775808"), ("usize", "A = 0xFFFF_FFFF_FFFF_FFFF"),
        ("u64", "A = 9223372036854775807, B"), ("u128", "Z = 1, A = 9223372036854775807, B"),
        ("i128", "A = 9223372036854775807, B, C"), ("usize", "A = 9223372036854775806, B, C"),
        ("u64", "A = 1, B = 9223372036854775808, C = 2"),
    ]
    for r, body in big:
        # under every feature set: some sets emit the mis-read value as a literal and fail for that reason alone
        for fs in FEATURE_SETS:
            add("beyond_i64", "", "#[repr(%s)]" % r, "pub enum E { %s }" % body, feats=fs)
    # 6. repr
    reprs6 = [
        ("missing", ""), ("dup_same", "#[repr(u8)]\n#[repr(u8)]"), ("dup_diff_align", "#[repr(u8)]\n#[repr(align(2))]"),
        ("C", "#[repr(C)]"), ("C_u8", "#[repr(C, u8)]"), ("u8_C", "#[repr(u8, C)]"), ("align", "#[repr(align(4))]"),
        # `repr(u8, align(2))` is left out: it *is* a primitive repr, accepting it would not break the property
    ]
    for name, attrs in reprs6:
        for body in ("pub enum E { A, B, C }", "pub enum E { A = 1, B = 5 }"):
            # rustc itself rejects these three on field-less enums (conflicting representation hints)
            add("repr_%s" % name, "", attrs, body, control=name not in ("dup_same", "C_u8", "u8_C"))
    # 7. too many variants
    for n in ([65535] if tier == "quick" else [65535, 65536, 70000]):
        body = "pub enum E { %s }" % ", ".join("V%d" % i for i in range(n))
        add("too_many_%d" % n, "", "#[repr(u32)]", body, feats="into, MIN, MAX")
        body = "pub enum E { %s }" % ", ".join("V%d%s" % (i, " = 100000" if i == n // 2 else "") for i in range(n))
        add("too_many_holes_%d" % n, "", "#[repr(u32)]", body, feats="into, MIN, MAX")
    return items


# ---------------------------------------------------------------------------------------
# C13

ENUM_G = ("#[repr(u8)]", "pub enum E { A, B, C, D }")
ENUM_H = ("#[repr(i8)]", "pub enum E { A = 0, B = 9, C = 2, D = 1 }")
ALL17 = ["as_str", "from_str", "into", "MAX", "MIN", "next", "next_back", "try_from", "Debug", "Display",
         "FromStr", "Into", "IntoStr", "TryFrom", "iter", "names", "range"]


def c13_items(tier: str, seed: int):
    items = []
    nid = [0]

    def add(op, attr_lines, enums=(ENUM_G, ENUM_H), body_override=None):
        for which, (repr_attr, body) in zip("GH", enums):
            nid[0] += 1
            b = body_override[which] if body_override else body
            text = "%s\n#[derive(Clone, Copy, EnumTools)]\n%s\n%s\n%s\n" % (HEAD, "\n".join(attr_lines), repr_attr, b)
            items.append(Item(nid[0], text, "reject",
                              {"op": op, "attr": " ".join(attr_lines)[:300], "enum": which,
                               "body": b if body_override else ""}))

    def one(op, inner):
        add(op, ["#[enum_tools(%s)]" % inner])
        if True:
            # the same invalid item among legal ones (which never repair it): before, after, in a later attribute
            add(op + "+ctx_after", ["#[enum_tools(%s, Display, TryFrom)]" % inner])
            add(op + "+ctx_before", ["#[enum_tools(Display, TryFrom, %s)]" % inner])
            add(op + "+ctx_second_attr", ["#[enum_tools(Display)]", "#[enum_tools(TryFrom)]", "#[enum_tools(%s)]" % inner])
            add(op + "+other_enums", ["#[enum_tools(%s)]" % inner],
                enums=(("#[repr(i64)]", "pub enum E { A = -9223372036854775807, B = -5, C = -4, D = 9223372036854775807 }"),
                       ("#[repr(u8)]", "pub enum E { A = 255 }")))

    # unknown / mis-cased features
    for f in ["foo", "As_str", "AS_STR", "debug", "display", "Try_From", "tryfrom", "min", "max", "Min", "iterr",
              "next_front", "sort", "Sorted", "rename", "from", "Iter", "NAMES", "intostr", "Fromstr",
              "try_into", "len", "table", "auto"]:
        # (raw identifiers such as r#as_str are left out: whether they name the feature is not documented)
        one("unknown_feature", f)
        one("unknown_feature_among", "as_str, %s, into" % f)
        one("unknown_feature_params", "%s(mode = \"table\")" % f)
    # unknown parameter for every feature parser
    for f in ALL17 + ["sorted"]:
        pre = "iter, " if f == "range" else ""
        one("unknown_param_bare", "%s%s(bogus)" % (pre, f))
        one("unknown_param_value", "%s%s(bogus = \"v\")" % (pre, f))
    for f, p in [("into", "mode = \"match\""), ("Debug", "name = \"x\""), ("FromStr", "vis = \"pub\""),
                 ("FromStr", "name = \"x\""), ("TryFrom", "mode = \"match\""), ("names", "mode = \"table\""),
                 ("sorted", "values"), ("sorted", "mode = \"name\""), ("Into", "vis = \"pub\""),
                 ("IntoStr", "name = \"x\""), ("Display", "mode = \"table\""), ("MIN", "mode = \"x\""),
                 ("next", "struct_name = \"X\""), ("as_str", "struct_name = \"X\""), ("try_from", "mode = \"table\""),
                 ("as_str", "Mode = \"table\""), ("as_str", "NAME = \"x\""), ("iter", "struct = \"X\"") if False else ("iter", "structname = \"X\"")]:
        one("param_of_other_feature", "%s(%s)" % (f, p))
    one("param_of_other_feature", "iter, range(mode = \"table\")")
    one("param_of_other_feature", "iter, range(struct_name = \"X\")")
    # duplicated feature
    for f in ["as_str", "into", "Debug", "iter", "MIN", "sorted", "TryFrom", "names"]:
        one("dup_feature_same_attr", "%s, %s" % (f, f))
        add("dup_feature_two_attrs", ["#[enum_tools(%s)]" % f, "#[enum_tools(%s)]" % f])
        add("dup_feature_far", ["#[enum_tools(%s, into_placeholder)]".replace("into_placeholder", "next" if f != "next" else "MAX"),
                                "#[enum_tools(next_back, %s)]" % f])
    one("dup_feature_params", "as_str, as_str(mode = \"table\")")
    one("dup_feature_params", "iter(mode = \"table\"), iter(mode = \"table\")")
    # duplicated parameter
    for inner in ["as_str(mode = \"table\", mode = \"match\")", "as_str(name = \"a\", name = \"b\")",
                  "sorted(name, name)", "iter(vis = \"pub\", vis = \"pub\")", "from_str(mode = \"table\", mode = \"table\")",
                  "into(name = \"a\", vis = \"pub\", name = \"a\")", "sorted(value, name, value)",
                  "names(struct_name = \"X\", struct_name = \"Y\")",
                  # the same parameter once bare and once with a value, in either order
                  "iter(mode = \"table\", mode)", "as_str(name, name = \"label\")", "MIN(vis = \"pub\", vis)",
                  "as_str(mode, mode = \"match\")", "names(struct_name = \"X\", struct_name)", "sorted(name, name = \"x\")"]:
        one("dup_param", inner)
    # undocumented modes and visibilities
    for f in ["as_str", "from_str", "FromStr"]:
        for m in ["tabel", "Match", "", "TABLE", "range", "next_and_back", "table_inline", " table", "auto "]:
            one("bad_mode", "%s(mode = %s)" % (f, rust_str(m)))
    for m in ["inline", "Range", "", "next", "tables", "table-inline", "nextandback", "auto,table"]:
        one("bad_mode", "iter(mode = %s)" % rust_str(m))
    for f in ["as_str", "into", "MIN", "iter", "names", "try_from", "next"]:
        for v in ["pub(super)", "pub(in crate)", "private", "pub ", "PUB", " pub", "crate", "pub(self)", "pub(crate )",
                  "pub (crate)"]:
            one("bad_vis", "%s(vis = %s)" % (f, rust_str(v)))
    # wrong kinds
    for inner in ["as_str(mode = 1)", "as_str(mode)", "as_str(name = 1)", "as_str(name)", "as_str(vis)",
                  "as_str(vis = 1)", "sorted(name = \"x\")", "sorted(value = true)", "MIN = 1", "as_str = \"x\"",
                  "as_str(mode(\"x\"))", "a::b", "as_str(a::b = \"x\")", "::as_str", "as_str(mode = b\"table\")",
                  "as_str(mode = 'm')", "as_str(name = true)", "iter(struct_name = 5)", "iter(mode = 2.0)",
                  "into(name = \"1abc\")", "into(name = \"a b\")", "into(name = \"\")", "iter(struct_name = \"a-b\")",
                  "as_str(mode = \"table\" \"x\")", "as_str<u8>", "as_str(name = -1)", "Debug = true",
                  "into(vis = true)", "next(name = 'n')",
                  # unquoted words as values
                  "sorted(name = yes)", "sorted(value = on, name)", "sorted(name = no)", "as_str(mode = table)",
                  "iter(mode = auto)", "into(vis = pub)", "MIN(name = FIRST)", "sorted(value = value)"]:
        one("wrong_kind", inner)
    add("wrong_kind_path_attr", ["#[enum_tools]"])
    add("wrong_kind_namevalue_attr", ["#[enum_tools = \"x\"]"])
    add("wrong_kind_namevalue_attr", ["#[enum_tools(as_str)]", "#[enum_tools = \"as_str\"]"])
    add("wrong_kind_path_attr", ["#[enum_tools(as_str)]", "#[enum_tools]"])
    # range / iter constraints
    one("range_without_iter", "range")
    one("range_without_iter", "range, names, next, next_back, MIN, MAX, as_str")
    one("range_with_table_inline", "range, iter(mode = \"table_inline\")")
    one("range_with_table_inline", "iter(mode = \"table_inline\"), range(name = \"r\")")
    add("range_with_table_inline", ["#[enum_tools(iter(mode = \"table_inline\"))]", "#[enum_tools(range)]"])
    add("iter_range_on_holes", ["#[enum_tools(iter(mode = \"range\"))]"], enums=(ENUM_H, ENUM_H))
    add("iter_range_on_holes", ["#[enum_tools(iter(mode = \"range\"), range)]"],
        enums=(("#[repr(u64)]", "pub enum E { A = 1, B = 3 }"), ("#[repr(i8)]", "pub enum E { A = -128, B = 127 }")))
    # variant level
    vbad = ["#[enum_tools(rename)]", "#[enum_tools(rename = 1)]", "#[enum_tools(other = \"x\")]",
            "#[enum_tools(rename(\"x\"))]", "#[enum_tools]", "#[enum_tools = \"x\"]",
            "#[enum_tools(rename = \"a\", rename = \"b\")]", "#[enum_tools(rename = \"a\", other)]",
            "#[enum_tools(Rename = \"x\")]", "#[enum_tools(rename = b\"x\")]", "#[enum_tools(rename = 'c')]",
            "#[enum_tools(as_str)]", "#[enum_tools()]", "#[enum_tools(name = \"x\")]", "#[enum_tools(rename = true)]",
            "#[enum_tools(a::rename = \"x\")]", "#[enum_tools(rename = \"x\",,)]", "#[enum_tools(skip)]",
            # a well-formed rename together with a malformed attribute on the same variant, in either order
            "#[enum_tools(rename = \"ok\")] #[enum_tools(skip)]", "#[enum_tools(skip)] #[enum_tools(rename = \"ok\")]",
            "#[enum_tools(rename = \"ok\")] #[enum_tools(rename = 1)]", "#[enum_tools(rename = \"ok\")] #[enum_tools]",
            "#[enum_tools(rename = \"ok\")] #[doc = \"x\"] #[enum_tools(other = \"y\")]"]
    for va in vbad:
        for pos in ((0, 2) if tier == "quick" else (0, 1, 2, 3)):
            gv = ["A", "B", "C", "D"]
            hv = ["A = 0", "B = 9", "C = 2", "D = 1"]
            gv[pos] = va + " " + gv[pos]
            hv[pos] = va + " " + hv[pos]
            add("variant_attr", ["#[enum_tools(as_str, names)]"],
                body_override={"G": "pub enum E { %s }" % ", ".join(gv), "H": "pub enum E { %s }" % ", ".join(hv)})
    return items


# ---------------------------------------------------------------------------------------
# C14

RAW_PROBE = """use enum_tools::EnumTools;
#[derive(Clone, Copy, EnumTools)]
#[enum_tools(as_str, names, Debug, Display)]
#[repr(u8)]
#[allow(non_camel_case_types)]
pub enum E { r#type, r#loop = 7 }
fn main() {
    println!("as_str={}|{}", E::r#type.as_str(), E::r#loop.as_str());
    println!("names={}", E::names().collect::<Vec<_>>().join("|"));
    println!("fmt={}|{:?}", E::r#type, E::r#loop);
}
"""


def learn_raw_spelling(g) -> str:
    """Which string is "the name" of a variant written as a raw identifier (`r#type`) is not documented.
    C14 does not guess: it *observes* what as_str / names / Display / Debug answer on the tree under test and
    orders raw-identifier variants by that spelling.  -> "raw" | "plain"; anything else is inconclusive for the
    raw-identifier items (C03 / C08 report disagreeing string items)."""
    out = g.probe_bin("rawprobe", RAW_PROBE)
    if out.split() == ["as_str=r#type|r#loop", "names=r#type|r#loop", "fmt=r#type|r#loop"]:
        return "raw"
    if out.split() == ["as_str=type|loop", "names=type|loop", "fmt=type|loop"]:
        return "plain"
    return "mixed:" + out.replace("\n", " ")[:200]


def c14_items(tier: str, seed: int, raw_spelling=None):
    rng = random.Random(1400 + seed)
    items = []
    nid = [0]
    kinds = []
    # (label, [(ident, discriminant text | None, rename | None)])  in "canonical" order
    kinds.append(("explicit3", [("A", "5", None), ("B", "7", None), ("C", "9", None)]))
    kinds.append(("explicit4_neg", [("A", "-3", None), ("B", "-1", None), ("C", "0", None), ("D", "4", None)]))
    kinds.append(("implicit4", [("A", None, None), ("B", None, None), ("C", None, None), ("D", None, None)]))
    kinds.append(("renamed4", [("A", "1", "d"), ("B", "2", "c"), ("C", "3", "b"), ("D", "4", "a")]))
    kinds.append(("mixed4", [("A", "10", None), ("B", None, "Zed"), ("C", "3", None), ("D", None, "b")]))
    kinds.append(("case3", [("a", "1", None), ("B", "2", None), ("C", "3", "é")]))
    kinds.append(("prefix3", [("A", "1", "ab"), ("B", "2", "a"), ("C", "3", "abc")]))
    kinds.append(("dupname3", [("A", "1", "n"), ("B", "2", "n"), ("C", "3", None)]))
    kinds.append(("dupname_ident3", [("A", "4", "B"), ("B", "5", None), ("C", "-1", None)]))
    kinds.append(("minus_one4", [("A", "-1", None), ("B", "-5", None), ("C", None, None), ("D", "0", None)]))
    if tier != "quick":
        kinds.append(("explicit6", [("A", "-8", None), ("B", "-1", None), ("C", "0", "a"), ("D", "3", None), ("E", "70", "B"), ("F", "71", None)]))
        kinds.append(("mixed6", [("A", None, None), ("B", None, "x"), ("C", "-2", None), ("D", None, None), ("E", None, "A"), ("F", "40", None)]))
        kinds.append(("explicit5", [("A", "1", None), ("B", "2", None), ("C", "3", None), ("D", "40", None), ("E", "50", None)]))
        kinds.append(("mixed5", [("A", None, "x"), ("B", "7", None), ("C", None, None), ("D", "2", "A"), ("E", None, None)]))
        kinds.append(("dupname4", [("A", "1", "n"), ("B", "2", "n"), ("C", "3", None), ("D", "4", None)]))
        kinds.append(("hex4", [("A", "0x10", None), ("B", "0b11", None), ("C", "-0o7", "zz"), ("D", "1_000", None)]))
    kinds.append(("i64_limits4", [("A", "-9223372036854775808", None), ("B", "0", None), ("C", "9223372036854775807", None), ("D", "5", "zz")]))
    kinds.append(("i64_implicit_to_max3", [("A", "0x7fff_ffff_ffff_fffe", None), ("B", None, None), ("C", "-1", None)]))
    if raw_spelling in ("raw", "plain"):
        # raw identifiers: "r#type" < "s" < "type", "Z" < "r#loop" < "loop" ... the verdict flips with the spelling
        kinds.append(("rawident3", [("r#type", "1", None), ("s", "2", None), ("u", "3", None)]))
        kinds.append(("rawident4", [("r#loop", None, None), ("m", None, None), ("r#as", None, "n"), ("q", None, None)]))
        kinds.append(("rawident_both3", [("r#fn", "-2", None), ("r#match", "5", None), ("g", "9", None)]))
    flags = [(False, False), (True, False), (False, True), (True, True)]
    for label, vs in kinds:
        perms = list(itertools.permutations(range(len(vs))))
        if tier == "quick" and len(perms) > 24:
            perms = rng.sample(perms, 24)
        if tier != "quick" and len(perms) > 720:
            perms = rng.sample(perms, 720)
        for perm in perms:
            seq = [vs[i] for i in perm]
            # model: discriminants and names in declaration order
            vals, names = [], []
            last = -1
            for ident, disc, ren in seq:
                from ..spec import parse_literal
                v = last + 1 if disc is None else parse_literal(disc)
                last = v
                vals.append(v)
                if ren is None and ident.startswith("r#") and raw_spelling == "plain":
                    names.append(ident[2:])
                else:
                    names.append(ident if ren is None else ren)
            if len(set(vals)) != len(vals):
                continue  # duplicate discriminants: not valid Rust at all
            repr_ = "i64" if label.startswith("i64") else ("i128" if label == "case3" else "i16")
            val_sorted = all(a < b for a, b in zip(vals, vals[1:]))
            name_sorted = all(a.encode() < b.encode() for a, b in zip(names, names[1:]))
            for sv, sn in flags:
                ok = (val_sorted or not sv) and (name_sorted or not sn)
                inner = [x for x, on in (("name", sn), ("value", sv)) if on]
                if rng.random() < 0.5:
                    inner.reverse()
                sorted_tok = "sorted(%s), " % ", ".join(inner) if inner else ""
                body_vs = []
                for ident, disc, ren in seq:
                    t = ""
                    if ren is not None:
                        t += "#[enum_tools(rename = %s)] " % rust_str(ren)
                    t += ident if disc is None else "%s = %s" % (ident, disc)
                    body_vs.append(t)
                body = "pub enum E { %s }" % ", ".join(body_vs)
                nid[0] += 1
                feats = "%sas_str, MIN, iter" % sorted_tok
                text = "%s\n#[derive(Clone, Copy, EnumTools)]\n#[enum_tools(%s)]\n#[repr(%s)]\n%s\npub fn touch() -> (&'static str, usize) { (E::MIN.as_str(), E::iter().count()) }\n" % (
                    HEAD, feats, repr_, body)
                ctl = None
                if not ok:
                    ctl = "#[derive(Clone, Copy)]\n#[repr(%s)]\n%s\n" % (repr_, strip_variant_attrs(body))
                items.append(Item(nid[0], text, "accept" if ok else "reject",
                                  {"kind": label, "perm": list(perm), "sorted_value": sv, "sorted_name": sn,
                                   "values": vals, "names": names, "identity": list(perm) == sorted(perm),
                                   "body": body, "attr": "#[enum_tools(%s)]" % feats}, control=ctl))
    return items


# ---------------------------------------------------------------------------------------

RULES = {
    "C12": "items = mutation operators (not an enum; no variants; variants with fields; non-literal discriminant expressions at every position; values outside i64 and implicit overflow; missing / duplicated / non-primitive repr; >= 65535 variants) applied to several base declarations and reprs; each must fail to compile (screened in batches, every apparent acceptance recompiled alone) while its control copy without the derive compiles; counted: distinct (operator, repr/base, position)",
    "C13": "items = invalid enum-level and variant-level enum_tools attributes (unknown / mis-cased feature, unknown parameter for each of the 18 parsers, duplicated feature / parameter, undocumented mode / vis strings, wrong value kinds, range without iter / with table_inline, iter range mode on holes, malformed rename) on a gapless and a with-holes enum; each must fail to compile; counted: distinct (mutation, enum)",
    "C14": "items = all (quick: up to 24) declaration-order permutations of 3-5 variant enums with explicit / implicit / mixed discriminants and renames x sorted flags {none, value, name, both}; the model's strictly-ascending verdict decides accept / reject; variants written as raw identifiers (r#type) are ordered by the spelling which as_str / names / Display / Debug are observed to answer on the tree under test (probe binary; which spelling is the name is not documented, only that sorted(name) and the string items mean the same name); counted: items with a non-identity permutation or a sorted flag",
}


def run(prop: str, tier: str, seed: int) -> int:
    t0 = time.time()
    violations, inconclusive = [], []
    coverage = {}
    try:
        g = CompileGroup({"C12": "rej12", "C13": "rej13", "C14": "sort"}[prop], tier, per_crate=150)
        raw_spelling = None
        with Lock(g.root + ".lock"):
            if prop == "C14":
                raw_spelling = learn_raw_spelling(g)
                items = c14_items(tier, seed, raw_spelling)
            else:
                items = {"C12": c12_items, "C13": c13_items}[prop](tier, seed)
            res = g.run(items)
        ops = {}
        nontriv = 0
        samples = []
        accepted_expected = rejected_expected = 0
        confirmed_alone = 0
        controls = 0
        for it in items:
            r = res.get(it.id)
            if r is None or r["outcome"] == "unknown":
                inconclusive.append("item %d (%s) has no verdict" % (it.id, it.meta))
                continue
            if r.get("control_failed"):
                inconclusive.append("generator error: control copy of item %d (%s) does not compile: %s" % (
                    it.id, it.meta.get("op") or it.meta.get("kind"), r["control_errors"][0]["message"][:200]))
                continue
            if it.control is not None:
                controls += 1
            if r.get("alone"):
                confirmed_alone += 1
            key = it.meta.get("op") or it.meta.get("kind")
            ops[key.split("@")[0]] = ops.get(key.split("@")[0], 0) + 1
            if prop == "C14":
                if not it.meta["identity"] or it.meta["sorted_value"] or it.meta["sorted_name"]:
                    nontriv += 1
            else:
                nontriv += 1
            if r["outcome"] == it.expect:
                if it.expect == "accept":
                    accepted_expected += 1
                else:
                    rejected_expected += 1
                if len(samples) < 6 and it.id % 37 == seed % 37:
                    samples.append({"item": it.meta, "expected": it.expect, "observed": r["outcome"],
                                    "diagnostic": r["errors"][0]["message"][:160] if r["errors"] else None})
                continue
            desc = it.meta.get("body") or it.meta.get("attr")
            if it.expect == "reject":
                sig = "%s|accepted|%s|%s" % (prop, key, desc[:120])
                summary = ("rejected only when expanded after other items of its batch; " if r.get("batch_only_reject") else "") + \
                    "expected a compile error but the item compiles (confirmed alone): %s %s" % (
                    it.meta.get("attr", ""), it.meta.get("body", ""))
            else:
                sig = "%s|rejected|%s|%s" % (prop, key, desc[:120])
                if r.get("context_dependent"):
                    sig = "%s|rejected-after-other-enums|%s|%s" % (prop, key, desc[:120])
                summary = ("compiles in a crate of its own but NOT when it is expanded after %d other enums of the same crate "
                           "(state carried from one expansion to the next): " % r["context_items"] if r.get("context_dependent") else "") + \
                    "expected to compile but got: %s -- %s %s" % (
                    r["errors"][0]["message"][:200] if r["errors"] else "?", it.meta.get("attr", ""), it.meta.get("body", ""))
            violations.append(Violation(prop, sig, summary, {
                "kind": "compile-outcome", "expected": it.expect, "observed": r["outcome"], "meta": it.meta,
                "source": it.text if len(it.text) < 20000 else it.text[:20000] + "...",
                "errors": [e["rendered"][:1500] for e in r["errors"][:3]]}))
        if not samples and items:
            it = items[0]
            samples.append({"item": it.meta, "expected": it.expect, "observed": res.get(it.id, {}).get("outcome")})
        coverage = {
            "evaluations": len(items),
            "distinct_nontrivial": nontriv,
            "rule": RULES[prop],
            "samples": samples,
            "expected_reject_and_rejected": rejected_expected,
            "expected_accept_and_accepted": accepted_expected,
            "control_copies_compiled": controls,
            "verdicts_from_isolated_recompilation": confirmed_alone,
            "batch_rejected_items_rebuilt_alone": getattr(g, "reject_sample_alone", 0),
            "items_per_operator": ops,
            "rustc_processes_with_expansions": g.rustc_processes,
            "cargo_s": round(g.secs, 1),
        }
        if prop == "C14":
            coverage["raw_identifier_name_observed"] = raw_spelling
            coverage["raw_identifier_items"] = sum(1 for it in items if it.meta["kind"].startswith("rawident"))
    except Inconclusive as e:
        inconclusive.append(str(e))
    return finish(prop, tier, seed, t0, violations, inconclusive, coverage, [
        "rejection in any compiler phase counts; message texts are not compared",
        "batch outcomes are only a screen: every verdict contradicting the expectation comes from compiling the item alone",
        "control copies (derive and enum_tools attributes stripped) must compile, otherwise the generator is wrong and the run is inconclusive",
        "sampled syntax: the mutation catalogue is finite",
    ])
