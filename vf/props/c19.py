"""C19: documented signatures - compile-time ascription probes for every mode / shape case."""
from __future__ import annotations

import random
import time

from .. import corpus
from ..build import Inconclusive, Lock
from ..compilegroup import CompileGroup, Item
from ..emit import subject_text
from ..spec import Case
from ..verdict import Violation, finish

RULE = ("cases = 6 enum shapes (gapless / holes, small / large, negative runs, run at type minimum) x mode tuples (quick: pairwise "
        "covering subset + table_inline, thorough: full product) with default and custom item / struct names; per case one probe "
        "per enabled item: `const X: R = E::A.into()` (const fn in a constant expression), `const M: E = E::MIN/MAX`, fn-pointer "
        "coercions for next/next_back/try_from/from_str/as_str/into/iter/names/range, Result<E, ()> and associated error type "
        "ascriptions for TryFrom/FromStr, From<E> for R and &'static str, Debug+Display bounds, and "
        "Iterator<Item = ..> + DoubleEndedIterator + ExactSizeIterator + FusedIterator bounds for both structs; "
        "counted: (case, probe kind)")


def probes(case: Case):
    d, cfg = case.decl, case.cfg
    E = d.name
    nm = cfg.item_name
    first = d.variants[0].ident
    P = []  # (kind, line)
    if cfg.has("into"):
        P.append(("into_const_fn", "pub const P_INTO: R = E::%s.%s();" % (first, nm("into"))))
        P.append(("into_const_path", "pub const P_INTO2: R = E::%s(E::%s);" % (nm("into"), first)))
        P.append(("into_static", "pub static P_INTO3: [u8; (E::%s(E::%s) as i128 - E::%s(E::%s) as i128) as usize] = [];" % (
            nm("into"), first, nm("into"), first)))
        P.append(("into_fn_ptr", "pub const P_INTO_F: fn(E) -> R = E::%s;" % nm("into")))
    if cfg.has("MIN"):
        P.append(("min_const", "pub const P_MIN: E = E::%s;" % nm("MIN")))
        P.append(("min_in_pattern", "pub fn p_min(e: E) -> bool { const M: E = E::%s; (e as R) == (M as R) }" % nm("MIN")))
    if cfg.has("MAX"):
        P.append(("max_const", "pub const P_MAX: E = E::%s;" % nm("MAX")))
    if cfg.has("next"):
        P.append(("next_sig", "pub const P_NEXT: fn(E) -> Option<E> = E::%s;" % nm("next")))
    if cfg.has("next_back"):
        P.append(("next_back_sig", "pub const P_NEXT_BACK: fn(E) -> Option<E> = E::%s;" % nm("next_back")))
    if cfg.has("try_from"):
        P.append(("try_from_sig", "pub const P_TRY_FROM: fn(R) -> Option<E> = E::%s;" % nm("try_from")))
    if cfg.has("from_str"):
        P.append(("from_str_sig", "pub const P_FROM_STR: for<'a> fn(&'a str) -> Option<E> = E::%s;" % nm("from_str")))
    if cfg.has("as_str"):
        P.append(("as_str_sig", "pub const P_AS_STR: fn(E) -> &'static str = E::%s;" % nm("as_str")))
    if cfg.has("TryFrom"):
        P.append(("TryFrom_result", "pub fn p_tryfrom(n: R) -> Result<E, ()> { <E as core::convert::TryFrom<R>>::try_from(n) }"))
        P.append(("TryFrom_error", "pub fn p_tryfrom_err() -> <E as core::convert::TryFrom<R>>::Error { () }"))
        P.append(("TryInto", "pub fn p_tryinto(n: R) -> Result<E, ()> { core::convert::TryInto::<E>::try_into(n) }"))
    if cfg.has("FromStr"):
        P.append(("FromStr_result", "pub fn p_fromstr(s: &str) -> Result<E, ()> { <E as core::str::FromStr>::from_str(s) }"))
        P.append(("FromStr_err", "pub fn p_fromstr_err() -> <E as core::str::FromStr>::Err { () }"))
        P.append(("parse", "pub fn p_parse(s: &str) -> Result<E, ()> { s.parse::<E>() }"))
    if cfg.has("Into"):
        P.append(("Into_from", "pub fn p_into(e: E) -> R { <R as core::convert::From<E>>::from(e) }"))
        P.append(("Into_into", "pub fn p_into2(e: E) -> R { core::convert::Into::<R>::into(e) }"))
    if cfg.has("IntoStr"):
        P.append(("IntoStr_from", "pub fn p_intostr(e: E) -> &'static str { <&'static str as core::convert::From<E>>::from(e) }"))
    if cfg.has("Debug"):
        P.append(("Debug_bound", "pub fn p_debug() { fn needs<T: core::fmt::Debug>() {} needs::<E>() }"))
    if cfg.has("Display"):
        P.append(("Display_bound", "pub fn p_display() { fn needs<T: core::fmt::Display>() {} needs::<E>() }"))
    bound = ("fn needs<I, T>() where I: core::iter::Iterator<Item = T> + core::iter::DoubleEndedIterator "
             "+ core::iter::ExactSizeIterator + core::iter::FusedIterator {}")
    if cfg.has("iter"):
        S = cfg.struct_name("iter", E)
        P.append(("iter_sig", "pub const P_ITER: fn() -> subject::%s = E::%s;" % (S, nm("iter"))))
        P.append(("iter_traits", "pub fn p_iter_traits() { %s needs::<subject::%s, E>() }" % (bound, S)))
        P.append(("iter_item_type", "pub fn p_iter_item(mut i: subject::%s) -> (Option<E>, Option<E>, usize) { (i.next(), i.next_back(), i.len()) }" % S))
    if cfg.has("range"):
        S = cfg.struct_name("iter", E)
        P.append(("range_sig", "pub const P_RANGE: fn(E, E) -> subject::%s = E::%s;" % (S, nm("range"))))
    if cfg.has("names"):
        S = cfg.struct_name("names", E)
        P.append(("names_sig", "pub const P_NAMES: fn() -> subject::%s = E::%s;" % (S, nm("names"))))
        P.append(("names_traits", "pub fn p_names_traits() { %s needs::<subject::%s, &'static str>() }" % (bound, S)))
    return P


def sig_cases(tier: str, seed: int):
    rng = random.Random(1900 + seed)
    cases = []
    nid = 0
    import random as _r
    from .. import shapes as _sh
    extra = []
    rr = _r.Random(19)
    for r, vs in (("u8", list(range(0, 256))), ("i8", list(range(-128, 128))), ("u128", [3, 4, 5, 6]), ("i128", [-2, -1, 0, 1, 2]), ("u64", [10, 11, 12]), ("isize", [-1, 0, 1]),
                  ("usize", [0, 1, 5, 6]), ("i128", [-9, -8, 100]), ("u16", list(range(0, 300))), ("i64", [-(1 << 63), -(1 << 63) + 1, 5])):
        extra.append(_sh.build_decl(r, _sh.order_values(vs, "perm", rr), "sig_%s_%d" % (r, len(vs)), "dec", "first", rr))
    # variants renamed to the names of generated items
    from ..spec import make_decl as _mk
    extra.append(_mk("i16", [("A", "3", "MAX"), ("B", "1", "MIN"), ("C", "9", "LAST"), ("D", "4", "iter"), ("F", "-2", "FIRST")],
                     shape="sig_renamed_like_items"))
    for di, d in enumerate(corpus.cfg_shapes() + extra):
        gap = d.gapless()
        tuples = corpus.mode_tuples(gap, with_range=True)
        inline = [t for t in corpus.mode_tuples(gap, with_range=False) if t["iter"] == "table_inline"]
        if tier == "quick":
            tuples = corpus.pairwise_subset(tuples, rng, extra=2)
            inline = corpus.pairwise_subset(inline, rng, extra=0)[:3]
        for ti, t in enumerate(tuples + inline):
            without = ("range",) if t["iter"] == "table_inline" else ()
            names = corpus.CUSTOM_NAMES if ti % 3 == 1 else None
            cfg = corpus.legalize(corpus.cfg_all(t, without=without, names=names), d)
            if ti % 4 == 2:
                cfg.feats["iter"] = dict(cfg.feats["iter"], struct_name="MyIter")
                cfg.feats["names"] = dict(cfg.feats["names"], struct_name="MyNames")
            nid += 1
            cases.append(Case(nid, d, cfg, "plain", {}))
    return cases


def run(tier: str, seed: int) -> int:
    prop = "C19"
    t0 = time.time()
    violations, inconclusive = [], []
    coverage = {}
    try:
        cases = sig_cases(tier, seed)
        items = []
        nprobes = 0
        kinds = {}
        meta = {}
        for c in cases:
            ps = probes(c)
            nprobes += len(ps)
            for k, _ in ps:
                kinds[k] = kinds.get(k, 0) + 1
            head = "%s\nuse self::subject::%s as E;\ntype R = %s;\n" % (subject_text(c), c.decl.name, c.decl.repr)
            lines = head.count("\n") + 1
            line_of = {}
            body = []
            for k, l in ps:
                line_of[lines + len(body)] = k
                body.append(l)
            text = head + "\n".join(body) + "\n"
            items.append(Item(c.id, text, "accept", {"case": c.describe()}))
            meta[c.id] = (c, line_of, ps)
        g = CompileGroup("sig", tier, per_crate=60)
        with Lock(g.root + ".lock"):
            res = g.run(items)
        samples = []
        for it in items:
            r = res.get(it.id)
            c, line_of, ps = meta[it.id]
            if r is None or r["outcome"] == "unknown":
                inconclusive.append("item %d has no verdict" % it.id)
                continue
            if r["outcome"] == "accept":
                if len(samples) < 4 and it.id % 17 == seed % 17:
                    samples.append({"case": c.describe(), "probes": [l for _, l in ps[:5]], "compiled": True})
                continue
            for e in r["errors"][:4]:
                kind = None
                for f, line in e["files"]:
                    if line in line_of and f.endswith("k%06d.rs" % it.id):
                        kind = line_of[line]
                        break
                violations.append(Violation(
                    prop, "C19|%s|%s|%s" % (kind or "expansion", c.decl.shape, c.cfg.key()),
                    "signature probe %s does not compile for %s with %s: %s" % (
                        kind, c.decl.short(), c.cfg.short()[:200], e["message"][:300]),
                    {"kind": "signature-probe", "probe": kind, "case": c.describe(), "source": it.text,
                     "errors": [e["rendered"][:2000]]}))
        # const-ness must not depend on mode or shape either: for the functions which are not documented as
        # const the outcome of a `const X = E::f(..)` probe may be "accepted" or "rejected", but it must be the
        # same in every case (relational, no expectation about which)
        first = {c.id: c.decl.variants[0].ident for c in cases}
        citems, cmeta = [], {}
        for c in cases:
            nm = c.cfg.item_name
            head = "%s\nuse self::subject::%s as E;\ntype R = %s;\n" % (subject_text(c), c.decl.name, c.decl.repr)
            for k, (feat, expr) in enumerate((("as_str", "pub const P: &str = E::%s(E::%s);" % (nm("as_str"), first[c.id])),
                                              ("next", "pub const P: Option<E> = E::%s(E::%s);" % (nm("next"), first[c.id])),
                                              ("try_from", "pub const P: Option<E> = E::%s(0);" % nm("try_from")))):
                if not c.cfg.has(feat):
                    continue
                iid = 500000 + c.id * 10 + k
                citems.append(Item(iid, head + expr + "\n", "reject", {"case": c.describe(), "fn": feat}))
                cmeta[iid] = (c, feat)
        g2 = CompileGroup("sigconst", tier, per_crate=200)
        with Lock(g2.root + ".lock"):
            res2 = g2.run(citems, reject_cmd="build")
        by_fn = {}
        for it in citems:
            r = res2.get(it.id)
            if r is None or r["outcome"] == "unknown":
                inconclusive.append("const probe %d has no verdict" % it.id)
                continue
            by_fn.setdefault(it.meta["fn"], {}).setdefault(r["outcome"], []).append(it)
        const_probes = 0
        for fn, outs in by_fn.items():
            const_probes += sum(len(v) for v in outs.values())
            if len(outs) > 1:
                minority = min(outs.values(), key=len)
                majority = max(outs.values(), key=len)
                a, b = minority[0], majority[0]
                ca, cb = cmeta[a.id][0], cmeta[b.id][0]
                violations.append(Violation(
                    prop, "C19|constness-depends-on-mode|%s|%s" % (fn, ca.cfg.key()),
                    "whether %s is usable in a constant expression depends on mode / shape: %d cases one way, %d the other; e.g. %s with %s versus %s with %s" % (
                        fn, len(minority), len(majority), ca.decl.short(), ca.cfg.short()[:160], cb.decl.short(), cb.cfg.short()[:160]),
                    {"kind": "signature-probe", "probe": "const " + fn, "case": ca.describe(), "source": a.text,
                     "other_case": cb.describe()}))
        if not samples and items:
            c, line_of, ps = meta[items[0].id]
            samples.append({"case": c.describe(), "probes": [l for _, l in ps[:5]]})
        coverage = {
            "evaluations": nprobes,
            "distinct_nontrivial": nprobes,
            "rule": RULE,
            "samples": samples,
            "cases": len(cases),
            "probes_per_kind": kinds,
            "relational_constness_probes": const_probes,
            "cargo_s": round(g.secs, 1),
        }
    except Inconclusive as e:
        inconclusive.append(str(e))
    return finish(prop, tier, seed, t0, violations, inconclusive, coverage, [
        "a probe that compiles shows the item can be used at the documented type; it does not show the absence of additional, undocumented items (see C15)",
        "sampled mode tuples in the quick tier",
    ])
