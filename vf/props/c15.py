"""C15: name / vis / struct_name are honoured; helper items stay private.
Positive and negative privacy / name-resolution probes from the defining module, its parent,
the crate root and an external crate, plus a scan of the expansion text (hook log) for
every item emitted with a non-inherited visibility."""
from __future__ import annotations

import random
import re
import time

from .. import hookcheck
from ..build import Inconclusive, Lock
from ..compilegroup import CompileGroup, Item
from ..spec import Config, rust_str
from ..verdict import Violation, finish

RULE = ("definitions = enums of every visibility (private, pub(crate), pub(super), pub(in path), pub) x feature sets where every "
        "item-producing feature gets a random documented vis / custom name / struct_name or the default; the generator computes the "
        "truth table accessible(item, location) for the locations defining module / parent / crate root / external crate; every "
        "accessible item gets a typed positive probe (must compile), every inaccessible one a negative probe (must fail, each "
        "compiled as an item of its own and confirmed alone when the batch shows no error); negative probes also for the default "
        "name after renaming and for `__` helper names; the hook log's expansion text is scanned for all fn|const|struct with a "
        "non-inherited visibility and that set must equal the user's requests; counted: probes with location != defining module")

LOCS = ["inner", "outer", "root", "ext"]
FN_ITEMS = ["as_str", "from_str", "into", "next", "next_back", "try_from", "iter", "names", "range"]
CONST_ITEMS = ["MIN", "MAX"]
HELPERS = ["__as_str", "__from_str", "__into", "__MIN", "__MAX", "__next", "__next_back", "__try_from", "__iter",
           "__names", "__range", "__NAME", "__ENUM", "__RANGES"]


def access(vis: str, loc: str) -> bool:
    v = vis.replace(" ", "")
    if v == "":
        return loc == "inner"
    if v == "pub(super)" or v.startswith("pub(in"):
        return loc in ("inner", "outer")
    if v == "pub(crate)":
        return loc != "ext"
    if v == "pub":
        return True
    raise ValueError(vis)


class Def:
    def __init__(self, did, enum_vis_kind, cfg: Config, holes: bool):
        self.id = did
        self.kind = enum_vis_kind
        self.cfg = cfg
        self.holes = holes

    def enum_vis(self, modpath: str) -> str:
        return {"private": "", "crate": "pub(crate)", "super": "pub(super)", "pub": "pub",
                "in": "pub(in %s::outer)" % modpath}[self.kind]

    def items(self, modpath: str):
        """-> list of (feature, kind, name, effective vis)"""
        ev = self.enum_vis(modpath)
        out = []
        for f, p in self.cfg.feats.items():
            vis = p.get("vis", ev)
            if f in FN_ITEMS:
                out.append((f, "fn", p.get("name", f), vis))
            if f in CONST_ITEMS:
                out.append((f, "const", p.get("name", f), vis))
            if f == "iter":
                out.append((f, "struct", p.get("struct_name", "EIter"), vis))
            if f == "names":
                out.append((f, "struct", p.get("struct_name", "ENames"), vis))
        return out

    def body(self, modpath: str, inner_extra="", outer_extra="", root_extra="") -> str:
        """module tree  <here>::outer::inner  with the enum inside `inner`"""
        ev = self.enum_vis(modpath)
        variants = "A = 1, B = 9, C = 2" if self.holes else "A, B, C"
        return (
            "pub mod outer {\n"
            "    pub mod inner {\n"
            "        use enum_tools::EnumTools;\n"
            "        #[derive(Clone, Copy, EnumTools)]\n"
            "        #[doc = \"case:%06d\"]\n"
            "        %s\n"
            "        #[repr(i16)]\n"
            "        %s enum E { %s }\n"
            "%s"
            "    }\n"
            "%s"
            "}\n"
            "%s" % (self.id, "\n        ".join(self.cfg.attrs()), ev, variants, inner_extra, outer_extra, root_extra))

    def describe(self):
        return {"def": self.id, "enum_vis": self.kind, "holes": self.holes, "configuration": self.cfg.short()}


def probe_expr(kind: str, path: str, name: str, feature: str, positive: bool) -> str:
    """one statement which needs the item to be nameable from here"""
    E = path + "E"
    if kind == "struct":
        return "let _: Option<%s%s> = None;" % (path, name)
    if kind == "const":
        return "let _: %s = %s::%s;" % (E, E, name) if positive else "let _ = %s::%s;" % (E, name)
    if not positive:
        return "let _ = %s::%s;" % (E, name)
    sig = {
        "as_str": "fn(%s) -> &'static str" % E, "from_str": "fn(&str) -> Option<%s>" % E, "into": "fn(%s) -> i16" % E,
        "next": "fn(%s) -> Option<%s>" % (E, E), "next_back": "fn(%s) -> Option<%s>" % (E, E),
        "try_from": "fn(i16) -> Option<%s>" % E,
    }.get(feature)
    if sig:
        return "let _: %s = %s::%s;" % (sig, E, name)
    return "let _ = %s::%s;" % (E, name)


RANK = {"": 0, "pub(crate)": 2, "pub": 3}
RANK_KIND = {"private": 0, "super": 1, "in": 1, "crate": 2, "pub": 3}
PATHS = {"inner": "", "outer": "inner::", "root": "outer::inner::"}


def make_defs(tier: str, seed: int):
    rng = random.Random(1500 + seed)
    defs = []
    did = 0
    feature_sets = [
        ["as_str", "from_str", "into", "MAX", "MIN", "next", "next_back", "try_from", "iter", "names", "range"],
        ["Debug"], ["Display", "IntoStr"], ["iter"], ["iter", "range"], ["try_from"], ["TryFrom"], ["next"], ["next_back"],
        ["from_str"], ["FromStr"], ["names"], ["as_str"], ["MIN"], ["into", "Into"],
    ]
    kinds = ["private", "crate", "super", "in", "pub"]
    modes = {"as_str": ["match", "table", "auto"], "from_str": ["match", "table", "auto"], "FromStr": ["match", "table", "auto"],
             "iter": ["auto", "next_and_back", "table", "table_inline"]}
    reps = 1 if tier == "quick" else 8
    for rep in range(reps):
        for kind in kinds:
            for fi, fs in enumerate(feature_sets):
                if tier == "quick" and fi > 0 and (fi + kinds.index(kind) + seed) % 3 != 0:
                    continue
                feats = {}
                holes = rng.random() < 0.5
                for f in fs:
                    p = {}
                    if f in modes:
                        m = rng.choice(modes[f])
                        if f == "iter" and "range" in fs and m == "table_inline":
                            m = "table"
                        if m != "auto":
                            p["mode"] = m
                    if f in FN_ITEMS + CONST_ITEMS:
                        full = fi == 0
                        if rng.random() < (0.6 if full else 0.4):
                            p["vis"] = rng.choice(["", "pub(crate)", "pub"])
                        if rng.random() < (0.5 if full else 0.3):
                            p["name"] = {"MIN": "LOWEST", "MAX": "HIGHEST"}.get(f, "my_" + f)
                        if f in ("iter", "names") and rng.random() < 0.5:
                            p["struct_name"] = "Custom" + f.capitalize()
                    if f == "iter" and "vis" in p and RANK[p["vis"]] > RANK_KIND[kind]:
                        # rustc itself forbids a more visible iterator struct: `type Item = E` would leak E (E0446)
                        del p["vis"]
                    feats[f] = p
                did += 1
                defs.append(Def(did, kind, Config(feats), holes))
    # feature sets which pull in helper items, deterministically, for every non-private enum visibility
    pullers = [
        {"iter": {"mode": "next_and_back"}}, {"iter": {"mode": "table"}}, {"iter": {"mode": "table_inline"}},
        {"iter": {"mode": "next_and_back"}, "range": {}}, {"iter": {"mode": "table"}, "range": {}}, {"iter": {}, "range": {}},
        {"try_from": {}}, {"TryFrom": {}}, {"next": {}}, {"next_back": {}}, {"from_str": {"mode": "table"}},
        {"FromStr": {"mode": "table"}}, {"as_str": {"mode": "table"}}, {"Debug": {}}, {"Display": {}}, {"IntoStr": {}},
        {"names": {}}, {"iter": {}}, {"from_str": {}, "FromStr": {}, "as_str": {}},
    ]
    # dependants must use a renamed item under its new name even when that name is also a prelude trait method or
    # the struct name is also the name of a core type
    pullers += [
        {"next": {"name": "clone"}, "next_back": {"name": "to_owned"}, "iter": {"mode": "next_and_back"}, "range": {}},
        {"as_str": {"name": "to_string"}, "Display": {}, "Debug": {}, "IntoStr": {}},
        # user-requested items which are also dependencies of another feature keep their requested visibility
        {"next": {}, "next_back": {}, "iter": {"mode": "next_and_back"}},
        {"next": {"name": "succ"}, "next_back": {}, "MIN": {}, "MAX": {"name": "LAST"}, "iter": {}, "range": {}},
        {"as_str": {}, "Debug": {}, "Display": {}}, {"MIN": {}, "MAX": {}, "try_from": {}, "TryFrom": {}},
        {"MIN": {"name": "FIRST"}, "iter": {"mode": "table"}, "range": {}},
        {"as_str": {"name": "into", "mode": "table"}, "Debug": {}, "names": {}},
        {"iter": {"struct_name": "Iter", "mode": "table"}, "range": {}, "names": {"struct_name": "Map"}},
        {"MIN": {"name": "MAX"}, "MAX": {"name": "MIN"}, "next": {"name": "next_back"}, "next_back": {"name": "next"},
         "iter": {"mode": "next_and_back", "name": "names"}, "names": {"name": "iter"}},
    ]
    for kind in (["pub", "crate"] if tier == "quick" else ["pub", "crate", "super", "in"]):
        for pi, feats in enumerate(pullers):
            for holes in ((pi + len(kind)) % 2 == 0,) if tier == "quick" else (False, True):
                did += 1
                defs.append(Def(did, kind, Config({k: dict(v) for k, v in feats.items()}), holes))
    # every vis value for every item-producing feature at least once, under a pub enum
    for f in FN_ITEMS + CONST_ITEMS:
        for v in ["", "pub(crate)", "pub"]:
            feats = {f: {"vis": v}}
            if f == "range":
                feats = {"iter": {}, "range": {"vis": v}}
            did += 1
            defs.append(Def(did, "pub" if (did % 2 or f == "iter") else "crate", Config(feats), did % 3 == 0))
    # the iterator structs are emitted by one generator per iterator mode: every mode (explicit, and table mode reached
    # through auto because another feature already needs the tables) x a vis narrower than the enum's x gapless / holes
    # (round 5, V15a: the table-mode struct took the enum's visibility; the random definitions never combined the two)
    for kind, vs in (("pub", ["", "pub(crate)"]), ("crate", [""])):
        for v in vs:
            for holes in (False, True):
                for extra in ({"mode": "next_and_back"}, {"mode": "table"}, {"mode": "table_inline"}, {"mode": "range"}, {}):
                    if extra.get("mode") == "range" and holes:
                        continue
                    for more in ({}, {"from_str": {"mode": "table"}}, {"names": {"vis": v}, "as_str": {"mode": "table"}}):
                        if more and extra:
                            continue  # the auto resolution is what the co-enabled table features are there for
                        if tier == "quick" and kind == "crate" and not (extra.get("mode") == "table" or more):
                            continue
                        feats = {"iter": dict(extra, vis=v)}
                        feats.update({k: dict(x) for k, x in more.items()})
                        if (did + len(v)) % 2:
                            feats["iter"]["struct_name"] = "Walk"
                        did += 1
                        defs.append(Def(did, kind, Config(feats), holes))
    return defs


def run(tier: str, seed: int) -> int:
    prop = "C15"
    t0 = time.time()
    violations, inconclusive = [], []
    coverage = {}
    try:
        defs = make_defs(tier, seed)
        items = []
        meta = {}
        nid = [100000]
        counts = {"positive": 0, "negative": 0, "by_location": {}, "helper_negative": 0, "default_name_negative": 0}

        def new_item(text, expect, m, deps=()):
            nid[0] += 1
            it = Item(nid[0], text, expect, m, deps=deps)
            items.append(it)
            meta[it.id] = m
            return it

        lib_mods = {}
        for d in defs:
            lib_path = "crate::k%06d" % d.id
            lib_mods[d.id] = d.body(lib_path)
            # in-crate positive probes: definition + probes at the three in-crate locations
            pos = {"inner": [], "outer": [], "root": []}
            it_id = nid[0] + 1
            here = "crate::k%06d" % it_id
            table = d.items(here)
            ev = d.enum_vis(here)
            neg = []
            for f, kind, name, vis in table:
                for loc in LOCS:
                    ok = access(vis, loc) if kind == "struct" else (access(vis, loc) and access(ev, loc))
                    if f == "range" and "iter" in d.cfg.feats:
                        # range() returns the iterator struct: rustc's type-privacy check makes the path
                        # unusable wherever that struct is not visible
                        ok = ok and access(d.cfg.feats["iter"].get("vis", ev), loc)
                    counts["by_location"][loc] = counts["by_location"].get(loc, 0) + 1
                    if loc == "ext":
                        continue
                    if ok:
                        pos[loc].append(probe_expr(kind, PATHS[loc], name, f, True))
                        counts["positive"] += 1
                    else:
                        neg.append((loc, f, kind, name, vis))
            # the default name must be gone after renaming; helpers are not reachable from the parent
            taken = {p.get("name") for p in d.cfg.feats.values()} | {p.get("struct_name") for p in d.cfg.feats.values()}
            for f, p in d.cfg.feats.items():
                if f in taken:
                    continue  # another item was given this default name: the path exists, legitimately
                if "name" in p and f in FN_ITEMS + CONST_ITEMS:
                    neg.append(("inner", f, "const" if f in CONST_ITEMS else "fn", f, "renamed-away"))
                    counts["default_name_negative"] += 1
                if "struct_name" in p:
                    neg.append(("inner", f, "struct", "EIter" if f == "iter" else "ENames", "renamed-away"))
                    counts["default_name_negative"] += 1
            for h in HELPERS:
                neg.append(("outer", h, "fn", h, "helper"))
                counts["helper_negative"] += 1
            # trait impls are public surface too: a trait feature that was not requested must not be implemented
            trait_probe = {
                "Debug": "fn needs<T: core::fmt::Debug>() {} needs::<E>();",
                "Display": "fn needs<T: core::fmt::Display>() {} needs::<E>();",
                "FromStr": "fn needs<T: core::str::FromStr>() {} needs::<E>();",
                "Into": "fn needs<T: core::convert::Into<i16>>() {} needs::<E>();",
                "IntoStr": "fn needs<T: core::convert::Into<&'static str>>() {} needs::<E>();",
                "TryFrom": "fn needs<T: core::convert::TryFrom<i16>>() {} needs::<E>();",
            }
            for tf, stmt in trait_probe.items():
                if tf not in d.cfg.feats:
                    neg.append(("inner", tf, "trait", stmt, "not-requested"))
                    counts["trait_negative"] = counts.get("trait_negative", 0) + 1
                else:
                    pos["inner"].append(stmt.replace("fn needs", "fn needs_%s" % tf.lower()).replace("needs::<E>", "needs_%s::<E>" % tf.lower()))
                    counts["positive"] += 1

            def fn_block(name, stmts, indent):
                if not stmts:
                    return ""
                return "%s#[allow(unused)] pub fn %s() {\n%s\n%s}\n" % (
                    indent, name, "\n".join(indent + "    " + s for s in stmts), indent)

            text = d.body(here, fn_block("probe_inner", pos["inner"], "        "),
                          fn_block("probe_outer", pos["outer"], "    "), fn_block("probe_root", pos["root"], ""))
            new_item(text, "accept", {"def": d.describe(), "probe": "in-crate positive probes",
                                      "statements": sum(len(v) for v in pos.values())})
            for loc, f, kind, name, vis in neg:
                counts["negative"] += 1
                nid_next = nid[0] + 1
                here2 = "crate::k%06d" % nid_next
                stmt = name if kind == "trait" else probe_expr(kind, PATHS[loc], name, f, False)
                blocks = {"inner": "", "outer": "", "root": ""}
                blocks[loc] = fn_block("probe", [stmt], {"inner": "        ", "outer": "    ", "root": ""}[loc])
                new_item(d.body(here2, blocks["inner"], blocks["outer"], blocks["root"]), "reject",
                         {"def": d.describe(), "probe": stmt, "location": loc, "item": f if kind == "trait" else name, "vis": vis,
                          "why": ("trait %s was not requested and must not be implemented for the enum" % f) if kind == "trait"
                          else "item with visibility %r must not be reachable from %s" % (vis, loc)})
            # external probes against the library copy
            lib_table = d.items(lib_path)
            lev = d.enum_vis(lib_path)
            ext_pos = []
            for f, kind, name, vis in lib_table:
                ok = access(vis, "ext") if kind == "struct" else (access(vis, "ext") and access(lev, "ext"))
                if f == "range" and "iter" in d.cfg.feats:
                    ok = ok and access(d.cfg.feats["iter"].get("vis", lev), "ext")
                path = "vdefs::k%06d::outer::inner::" % d.id
                if ok:
                    ext_pos.append(probe_expr(kind, path, name, f, True))
                    counts["positive"] += 1
                else:
                    counts["negative"] += 1
                    new_item("#[allow(unused)] pub fn probe() {\n    %s\n}\n" % probe_expr(kind, path, name, f, False),
                             "reject", {"def": d.describe(), "probe": probe_expr(kind, path, name, f, False),
                                        "location": "ext", "item": name, "vis": vis,
                                        "why": "item with visibility %r (enum %r) must not be reachable from another crate" % (vis, lev)},
                             deps=("vdefs",)).meta["lib_def"] = d.id
            if ext_pos:
                new_item("#[allow(unused)] pub fn probe() {\n%s\n}\n" % "\n".join("    " + s for s in ext_pos),
                         "accept", {"def": d.describe(), "probe": "external positive probes", "statements": len(ext_pos)},
                         deps=("vdefs",)).meta["lib_def"] = d.id
        g = CompileGroup("vis", tier, per_crate=200)
        g.libs["vdefs"] = lib_mods
        with Lock(g.root + ".lock"):
            g.build_libs()
            bad_defs = g.lib_dropped.get("vdefs", {})
            # definitions which do not compile: every documented name / vis / struct_name must be derivable
            by_def = {d.id: d for d in defs}
            for did_, errs in sorted(bad_defs.items()):
                d = by_def[did_]
                violations.append(Violation(
                    prop, "C15|definition-rejected|%s|%s" % (d.kind, d.cfg.short()[:150]),
                    "a definition using documented name / vis / struct_name parameters does not compile (enum vis %s): %s -- %s" % (
                        d.kind, d.cfg.short()[:300], errs[0]["message"][:300]),
                    {"kind": "compile-outcome", "expected": "accept", "observed": "reject", "meta": d.describe(),
                     "source": d.body("crate::k000001"), "errors": [e["rendered"][:1500] for e in errs[:3]]}))
            items = [it for it in items if it.meta.get("lib_def") not in bad_defs]
            res = g.run(items, reject_cmd="check")
            hook = g.hooklog()
        samples = []
        alone = 0
        for it in items:
            r = res.get(it.id)
            m = it.meta
            if r is None or r["outcome"] == "unknown":
                inconclusive.append("probe item %d has no verdict (%s)" % (it.id, m.get("probe")))
                continue
            if r.get("alone"):
                alone += 1
            if r["outcome"] == it.expect:
                if len(samples) < 6 and it.id % 41 == seed % 41:
                    samples.append({"definition": m["def"], "probe": m["probe"], "location": m.get("location"),
                                    "expected": it.expect, "observed": r["outcome"],
                                    "diagnostic": r["errors"][0]["message"][:120] if r["errors"] else None})
                continue
            if it.expect == "accept":
                for e in r["errors"][:3]:
                    violations.append(Violation(
                        prop, "C15|positive-probe-fails|%s|%s|%s" % (m["def"]["enum_vis"], m["def"]["configuration"][:120], e["message"][:60]),
                        "an item which must be reachable is not: enum vis %s, %s: %s" % (
                            m["def"]["enum_vis"], m["def"]["configuration"][:300], e["message"][:300]),
                        {"kind": "positive-probe", "meta": m, "source": it.text, "errors": [e["rendered"][:2000]]}))
            else:
                violations.append(Violation(
                    prop, "C15|negative-probe-compiles|%s|%s|%s|%s" % (m["def"]["enum_vis"], m["def"]["configuration"][:120],
                                                                     m.get("location"), m.get("item")),
                    "%s -- but `%s` compiles (enum vis %s; %s)" % (m.get("why"), m["probe"], m["def"]["enum_vis"],
                                                                 m["def"]["configuration"][:300]),
                    {"kind": "negative-probe", "meta": m, "source": it.text}))
        # hook-log surface scan on the library's expansions
        scanned = 0
        for d in defs:
            if d.id in bad_defs:
                continue  # already reported as a definition which does not compile
            rec = hook.get(d.id)
            if not rec or "end" not in rec:
                inconclusive.append("no expansion record for definition %d" % d.id)
                continue
            scanned += 1
            # records of the library and of the standalone copies share the case marker; any of them will do
            out = rec["end"]["output"]
            got = hookcheck.public_surface(out)
            vis_enum = re.sub(r"\s+", "", rec["resolved"]["vis_enum"])
            exp = set()
            for f, kind, name, vis in d.items("crate::x"):
                p = d.cfg.feats[f]
                v = re.sub(r"\s+", "", p["vis"]) if "vis" in p else vis_enum
                if v != "":
                    exp.add((v, kind, name))
            # normalise `pub(in path)`: compare only the vis class for items which default to the enum's visibility
            def norm(s):
                return {(("pub(in)" if v.startswith("pub(in") else v), k, n) for v, k, n in s}
            if norm(got) != norm(exp):
                extra = sorted(norm(got) - norm(exp))
                missing = sorted(norm(exp) - norm(got))
                violations.append(Violation(
                    prop, "C15|surface|%s|%s" % (d.kind, d.cfg.short()[:150]),
                    "expansion of %s (enum vis %s) emits a different non-private surface than requested: unexpected %s, missing %s" % (
                        d.cfg.short()[:300], d.kind, extra, missing),
                    {"kind": "surface", "def": d.describe(), "unexpected": extra, "missing": missing, "output": out[:6000]}))
        coverage = {
            "evaluations": counts["positive"] + counts["negative"],
            "distinct_nontrivial": sum(v for k, v in counts["by_location"].items() if k != "inner"),
            "rule": RULE,
            "samples": samples,
            "definitions": len(defs),
            "positive_probe_statements": counts["positive"],
            "negative_probe_items": counts["negative"],
            "helper_name_negative_probes": counts["helper_negative"],
            "default_name_negative_probes": counts["default_name_negative"],
            "unrequested_trait_negative_probes": counts.get("trait_negative", 0),
            "item_location_pairs": counts["by_location"],
            "verdicts_from_isolated_recompilation": alone,
            "expansions_scanned_for_public_surface": scanned,
            "cargo_s": round(g.secs, 1),
        }
    except Inconclusive as e:
        inconclusive.append(str(e))
    return finish(prop, tier, seed, t0, violations, inconclusive, coverage, [
        "helper names (`__MIN`, `__NAME`, ...) may change at any time: the negative probes on them are backed by the name-independent scan of the expansion text",
        "accessibility truth table: \"\" = defining module, pub(super)/pub(in parent) = parent, pub(crate) = crate, pub = everywhere; fn/const items also need the enum itself to be nameable",
        "a negative probe counts as rejected on any compile error attributed to its file",
    ])
