"""Declaration / configuration / case model and the reference semantics.

Nothing here looks at the macro's source or output: the model of a declaration is what
the Rust reference says about discriminants (implicit = previous + 1, first = 0) and
what enum-tools' documentation says about names (rename, else identifier).
"""
from __future__ import annotations

import hashlib
from dataclasses import dataclass, field
from typing import Optional

I64_MIN = -(1 << 63)
I64_MAX = (1 << 63) - 1

# repr -> (bits on this target, signed)
REPRS = {
    "u8": (8, False), "i8": (8, True),
    "u16": (16, False), "i16": (16, True),
    "u32": (32, False), "i32": (32, True),
    "u64": (64, False), "i64": (64, True),
    "u128": (128, False), "i128": (128, True),
    "usize": (64, False), "isize": (64, True),
}
REPR_ORDER = ["i8", "u8", "i16", "u16", "i32", "u32", "i64", "u64", "i128", "u128", "isize", "usize"]


def repr_range(r: str) -> tuple[int, int]:
    bits, signed = REPRS[r]
    if signed:
        return -(1 << (bits - 1)), (1 << (bits - 1)) - 1
    return 0, (1 << bits) - 1


def repr_domain(r: str) -> tuple[int, int]:
    """values a discriminant may take: inside the repr and inside i64"""
    lo, hi = repr_range(r)
    return max(lo, I64_MIN), min(hi, I64_MAX)


def rust_str(s: str) -> str:
    """a Rust string literal denoting exactly s"""
    out = ['"']
    for c in s:
        o = ord(c)
        if c == '"':
            out.append('\\"')
        elif c == "\\":
            out.append("\\\\")
        elif c == "\n":
            out.append("\\n")
        elif c == "\r":
            out.append("\\r")
        elif c == "\t":
            out.append("\\t")
        elif o < 0x20 or o == 0x7F:
            out.append("\\u{%x}" % o)
        else:
            out.append(c)
    out.append('"')
    return "".join(out)


def parse_literal(expr: str) -> int:
    """value of an (optionally negated) integer literal as rustc reads it"""
    t = expr.replace(" ", "")
    neg = t.startswith("-")
    if neg:
        t = t[1:]
    for suf in ("u128", "i128", "usize", "isize", "u16", "i16", "u32", "i32", "u64", "i64", "u8", "i8"):
        if t.endswith(suf):
            t = t[: -len(suf)]
            break
    t = t.replace("_", "")
    if t.startswith("0x"):
        v = int(t[2:], 16)
    elif t.startswith("0o"):
        v = int(t[2:], 8)
    elif t.startswith("0b"):
        v = int(t[2:], 2)
    else:
        v = int(t, 10)
    return -v if neg else v


@dataclass
class Variant:
    ident: str
    value: int
    expr: Optional[str] = None  # None: implicit discriminant
    rename: Optional[str] = None
    attrs: list = field(default_factory=list)  # foreign attributes (text lines)
    rename_text: Optional[str] = None  # literal spelling of the rename string (default: rust_str(rename))

    @property
    def name(self) -> str:
        if self.rename is None and self.ident.startswith("r#"):
            # a raw identifier: whether the name is `r#type` or `type` is not documented.  The model leaves it
            # open (sentinel); the monitors learn it from as_str and require every other item to agree with it.
            return "\x01" + self.ident
        return self.ident if self.rename is None else self.rename


@dataclass
class Decl:
    repr: str
    variants: list  # declaration order
    enum_attrs: list = field(default_factory=list)
    vis: str = "pub"
    name: str = "E"
    shape: str = ""
    repr_attr: bool = True  # False: the repr attribute is already among enum_attrs

    def sorted(self):
        return sorted(self.variants, key=lambda v: v.value)

    def values(self):
        return sorted(v.value for v in self.variants)

    def runs(self):
        vs = self.values()
        runs = []
        b = last = vs[0]
        for v in vs[1:]:
            if v != last + 1:
                runs.append((b, last))
                b = v
            last = v
        runs.append((b, last))
        return runs

    def gapless(self) -> bool:
        return len(self.runs()) == 1

    def value_map_key(self) -> str:
        """identity of the value->name map (what C18 says behaviour may depend on)"""
        h = hashlib.sha256()
        for v in self.sorted():
            h.update(("%d\0%s\0" % (v.value, v.name)).encode())
        return h.hexdigest()[:16]

    def key(self) -> str:
        h = hashlib.sha256()
        h.update(self.repr.encode())
        for v in self.variants:
            h.update(("%s\0%s\0%d\0%s\0" % (v.ident, v.expr, v.value, v.rename)).encode())
        return h.hexdigest()[:16]

    def text(self, derive_line: str, cfg_attrs: list, with_tool_attrs=True) -> str:
        lines = []
        lines.extend(self.enum_attrs)
        lines.append(derive_line)
        lines.extend(cfg_attrs)
        if self.repr_attr:
            lines.append("#[repr(%s)]" % self.repr)
        lines.append("%s enum %s {" % (self.vis, self.name) if self.vis else "enum %s {" % self.name)
        for v in self.variants:
            for a in v.attrs:
                lines.append("    " + a)
            if v.rename is not None and with_tool_attrs:
                lines.append("    #[enum_tools(rename = %s)]" % (v.rename_text or rust_str(v.rename)))
            if v.expr is None:
                lines.append("    %s," % v.ident)
            else:
                lines.append("    %s = %s," % (v.ident, v.expr))
        lines.append("}")
        return "\n".join(lines)

    def short(self) -> str:
        vs = self.variants
        body = ", ".join(
            "%s%s%s" % (v.ident, "" if v.expr is None else "=" + v.expr,
                        "" if v.rename is None else "~" + repr(v.rename))
            for v in vs[:8])
        if len(vs) > 8:
            body += ", ... (%d variants)" % len(vs)
        return "#[repr(%s)] enum { %s }" % (self.repr, body)


def ident_for(i: int) -> str:
    """identifier of the i-th generated variant: A..Z, then Va26, ..."""
    if i < 26:
        return chr(ord("A") + i)
    return "V%d" % i


def make_decl(repr_: str, items, shape="", **kw) -> Decl:
    """items: list of (ident, expr|None, rename|None) in declaration order.
    Values are computed by the model: literal value, else previous + 1 (first: 0)."""
    variants = []
    last = -1
    for it in items:
        ident, expr, rename = it[0], it[1], it[2]
        attrs = list(it[3]) if len(it) > 3 else []
        if expr is None:
            value = last + 1
        else:
            value = parse_literal(expr)
        last = value
        variants.append(Variant(ident, value, expr, rename, attrs))
    return Decl(repr_, variants, shape=shape, **kw)


# ---------------------------------------------------------------------------------------
# configuration

FN_FEATURES = ["as_str", "from_str", "into", "MAX", "MIN", "next", "next_back", "try_from"]
TRAIT_FEATURES = ["Debug", "Display", "FromStr", "Into", "IntoStr", "TryFrom"]
ITER_FEATURES = ["iter", "names", "range"]
ALL_FEATURES = FN_FEATURES + TRAIT_FEATURES + ITER_FEATURES  # the 17 user features
STR_MODES = ["auto", "match", "table"]
ITER_MODES = ["auto", "range", "next_and_back", "table", "table_inline"]
MODES = {"as_str": STR_MODES, "from_str": STR_MODES, "FromStr": STR_MODES, "iter": ITER_MODES}
TAKES_NAME_VIS = FN_FEATURES + ITER_FEATURES
TAKES_STRUCT_NAME = ["iter", "names"]
VIS_VALUES = ["", "pub(crate)", "pub"]


@dataclass
class Config:
    feats: dict  # ordered: feature -> {param: value}
    split: Optional[list] = None  # sizes of the groups the list is split into
    sorted_name: bool = False
    sorted_value: bool = False

    def has(self, f: str) -> bool:
        return f in self.feats

    def mode(self, f: str) -> str:
        return self.feats.get(f, {}).get("mode", "auto")

    def item_name(self, f: str) -> str:
        return self.feats.get(f, {}).get("name", f)

    def struct_name(self, f: str, enum_name: str) -> str:
        d = self.feats.get(f, {})
        return d.get("struct_name", enum_name + ("Iter" if f == "iter" else "Names"))

    def feature_tokens(self):
        toks = []
        if self.sorted_name or self.sorted_value:
            inner = [x for x, on in (("name", self.sorted_name), ("value", self.sorted_value)) if on]
            toks.append("sorted(%s)" % ", ".join(inner))
        for f, params in self.feats.items():
            if params:
                inner = ", ".join("%s = %s" % (k, rust_str(v)) for k, v in params.items())
                toks.append("%s(%s)" % (f, inner))
            else:
                toks.append(f)
        return toks

    def attrs(self) -> list:
        toks = self.feature_tokens()
        if not toks:
            return []
        if not self.split:
            return ["#[enum_tools(%s)]" % ", ".join(toks)]
        out = []
        i = 0
        for sz in self.split:
            part = toks[i:i + sz]
            i += sz
            if part:
                out.append("#[enum_tools(%s)]" % ", ".join(part))
        if i < len(toks):
            out.append("#[enum_tools(%s)]" % ", ".join(toks[i:]))
        return out

    def key(self) -> str:
        h = hashlib.sha256()
        h.update(repr((sorted((f, sorted(p.items())) for f, p in self.feats.items()),
                       self.sorted_name, self.sorted_value)).encode())
        return h.hexdigest()[:16]

    def short(self) -> str:
        return " ".join(self.attrs())


def legal(cfg: Config, decl: Decl) -> Optional[str]:
    """None when the documentation allows this configuration on this enum, else why not"""
    if cfg.has("range"):
        if not cfg.has("iter"):
            return "range requires iter"
        if cfg.mode("iter") == "table_inline":
            return "range requires iter not to use table_inline"
    if cfg.has("iter") and cfg.mode("iter") == "range" and not decl.gapless():
        return "iter range mode needs a gapless enum"
    return None


def all_features_config(modes=None, **kw) -> Config:
    modes = modes or {}
    feats = {}
    for f in ALL_FEATURES:
        p = {}
        if f in modes and modes[f] != "auto":
            p["mode"] = modes[f]
        elif f in modes and modes[f] == "auto" and kw.get("explicit_auto"):
            p["mode"] = "auto"
        feats[f] = p
    kw.pop("explicit_auto", None)
    return Config(feats, **kw)


@dataclass
class Case:
    id: int
    decl: Decl
    cfg: Config
    context: str = "plain"  # plain | noprelude | hostile | nostd | nostd_hostile
    tags: dict = field(default_factory=dict)
    probe_lo: Optional[int] = None
    probe_hi: Optional[int] = None

    def key(self) -> str:
        return hashlib.sha256(
            (self.decl.key() + self.cfg.key() + self.context).encode()).hexdigest()[:16]

    def describe(self) -> dict:
        return {
            "case": self.id,
            "declaration": self.decl.short(),
            "configuration": self.cfg.short(),
            "context": self.context,
            "shape": self.decl.shape,
        }
