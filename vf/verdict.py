"""Verdict discipline: violations, known findings, evidence files, replay files, exit codes."""
from __future__ import annotations

import hashlib
import json
import os
import re
import sys
import time

from .emit import VERIF

EVIDENCE_DIR = os.environ.get("VERIF_EVIDENCE_DIR") or os.path.join(VERIF, "evidence")
REPLAY_DIR = os.environ.get("VERIF_REPLAY_DIR") or os.path.join(VERIF, "replay")
KNOWN_FILE = os.path.join(VERIF, "KNOWN_FINDINGS.txt")


class Violation:
    def __init__(self, prop: str, signature: str, summary: str, replay: dict):
        self.prop = prop
        self.signature = re.sub(r"\s+", "_", signature)
        self.summary = summary
        self.replay = replay


def load_known():
    """-> {signature: what} of OPEN findings (fixed entries suppress nothing)"""
    out = {}
    try:
        with open(KNOWN_FILE, encoding="utf-8") as fh:
            for line in fh:
                line = line.strip()
                if not line.startswith("open:"):
                    continue
                m = re.match(r"open:\s+property=(\S+)\s+signature=(\S+)\s*(.*)$", line)
                if m:
                    out[m.group(2)] = (m.group(1), m.group(3))
    except OSError:
        pass
    return out


def write_replay(v: Violation, tier: str, seed: int) -> str:
    os.makedirs(REPLAY_DIR, exist_ok=True)
    payload = dict(v.replay)
    payload.update({"property": v.prop, "signature": v.signature, "summary": v.summary,
                    "tier": tier, "seed": seed})
    h = hashlib.sha256(v.signature.encode()).hexdigest()[:12]
    path = os.path.join(REPLAY_DIR, "%s-%s.json" % (v.prop, h))
    with open(path, "w", encoding="utf-8") as fh:
        json.dump(payload, fh, indent=1, ensure_ascii=False)
    return path


def finish(prop: str, tier: str, seed: int, t0: float, violations: list, inconclusive: list,
           coverage: dict, assumptions: list, level="exploration") -> int:
    """prints the verdict lines, writes evidence; -> exit code (0 held, 1 violated, 2 inconclusive)"""
    known = load_known()
    new, listed = [], []
    seen = set()
    for v in violations:
        if v.signature in seen:
            continue
        seen.add(v.signature)
        if v.signature in known and known[v.signature][0] == prop:
            listed.append(v)
        else:
            new.append(v)
    for v in listed:
        print("KNOWN-FINDING: property=%s %s" % (prop, known[v.signature][1] or v.summary))
    paths = []
    for v in new[:25]:
        p = write_replay(v, tier, seed)
        paths.append(p)
        print("VIOLATION property=%s replay=%s" % (prop, p))
        print("  %s" % v.summary[:600])
    if len(new) > 25:
        print("  ... and %d further violations (distinct signatures)" % (len(new) - 25))
    for msg in inconclusive[:10]:
        print("INCONCLUSIVE property=%s %s" % (prop, msg[:1500]))
    # evidence
    cov = dict(coverage)
    cov.setdefault("evaluations", 0)
    cov.setdefault("distinct_nontrivial", 0)
    cov.setdefault("rule", "")
    cov.setdefault("samples", [])
    cov["known_findings_reported"] = [v.signature for v in listed]
    cov["inconclusive"] = inconclusive[:10]
    cov["new_violations"] = [{"signature": v.signature, "summary": v.summary[:400]} for v in new[:25]]
    ev = {
        "property_id": prop,
        "tier": tier if tier in ("quick", "thorough") else "quick",
        "seed": int(seed),
        "level": level,
        "coverage": cov,
        "assumptions": assumptions,
        "wall_s": round(time.time() - t0, 2),
        "violations": len(new),
    }
    os.makedirs(EVIDENCE_DIR, exist_ok=True)
    with open(os.path.join(EVIDENCE_DIR, "%s.json" % prop), "w", encoding="utf-8") as fh:
        json.dump(ev, fh, indent=1, ensure_ascii=False)
        fh.write("\n")
    if new:
        return 1
    if inconclusive:
        return 2
    if cov["evaluations"] < 1 or cov["distinct_nontrivial"] < 2:
        print("INCONCLUSIVE property=%s the run observed too little (evaluations=%s, distinct non-trivial=%s)"
              % (prop, cov["evaluations"], cov["distinct_nontrivial"]))
        return 2
    print("HELD property=%s tier=%s seed=%s evaluations=%s distinct_nontrivial=%s wall=%.1fs" % (
        prop, tier, seed, cov["evaluations"], cov["distinct_nontrivial"], time.time() - t0))
    return 0
