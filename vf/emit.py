"""Writes the Rust harness crates: one module (one file) per case."""
from __future__ import annotations

import os
import shutil

from .spec import Case, rust_str

VERIF = os.path.dirname(os.path.dirname(os.path.abspath(__file__)))


def repo_path() -> str:
    return os.environ.get("VERIF_REPO", "/repo")


HOSTILE_ITEMS = """\
        // user items named like prelude / core items (type, value and macro namespaces)
        #[allow(dead_code)] pub struct Option;
        #[allow(dead_code)] pub struct Some;
        #[allow(dead_code)] pub struct None;
        #[allow(dead_code)] pub struct Result;
        #[allow(dead_code)] pub struct Ok;
        #[allow(dead_code)] pub struct Err;
        #[allow(dead_code)] pub struct Formatter;
        #[allow(dead_code)] pub struct String;
        #[allow(dead_code)] pub struct Vec;
        #[allow(dead_code)] pub struct Box;
        #[allow(dead_code)] pub struct RangeInclusive;
        #[allow(dead_code)] pub struct MaybeUninit;
        #[allow(dead_code)] pub trait Iterator {}
        #[allow(dead_code)] pub trait IntoIterator {}
        #[allow(dead_code)] pub trait DoubleEndedIterator {}
        #[allow(dead_code)] pub trait ExactSizeIterator {}
        #[allow(dead_code)] pub trait FusedIterator {}
        #[allow(dead_code)] pub trait From {}
        #[allow(dead_code)] pub trait Into {}
        #[allow(dead_code)] pub trait TryFrom {}
        #[allow(dead_code)] pub trait TryInto {}
        #[allow(dead_code)] pub trait FromStr {}
        #[allow(dead_code)] pub trait Copy {}
        #[allow(dead_code)] pub trait Clone {}
        #[allow(dead_code)] pub trait Sized {}
        #[allow(dead_code)] pub trait FnMut {}
        #[allow(dead_code)] pub trait Debug {}
        #[allow(dead_code)] pub trait Display {}
        #[allow(dead_code)] pub mod core {}
        #[allow(dead_code)] pub mod std {}
        #[allow(dead_code)] pub mod alloc {}
        #[allow(dead_code)] pub mod fmt {}
        #[allow(dead_code)] pub mod mem {}
        #[allow(dead_code)] pub mod iter {}
        #[allow(dead_code)] pub mod option {}
        #[allow(dead_code)] pub mod result {}
        // modules named like core's integer / str modules (`use std::u8;` style): paths such as `i8::MIN` resolve to
        // them first, while the primitive types themselves stay usable in type position
        #[allow(dead_code, non_upper_case_globals)] pub mod i8 { pub const MIN: u8 = 7; pub const MAX: u8 = 9; pub const BITS: u8 = 3; }
        #[allow(dead_code)] pub mod u8 { pub const MIN: i64 = 7; pub const MAX: i64 = 9; }
        #[allow(dead_code)] pub mod i16 { pub const MIN: u8 = 7; pub const MAX: u8 = 9; }
        #[allow(dead_code)] pub mod u16 { pub const MIN: u8 = 7; pub const MAX: u8 = 9; }
        #[allow(dead_code)] pub mod i32 { pub const MIN: u8 = 7; pub const MAX: u8 = 9; }
        #[allow(dead_code)] pub mod u32 { pub const MIN: u8 = 7; pub const MAX: u8 = 9; }
        #[allow(dead_code)] pub mod i64 { pub const MIN: u8 = 7; pub const MAX: u8 = 9; }
        #[allow(dead_code)] pub mod u64 { pub const MIN: u8 = 7; pub const MAX: u8 = 9; }
        #[allow(dead_code)] pub mod i128 { pub const MIN: u8 = 7; pub const MAX: u8 = 9; }
        #[allow(dead_code)] pub mod u128 { pub const MIN: u8 = 7; pub const MAX: u8 = 9; }
        #[allow(dead_code)] pub mod isize { pub const MIN: u8 = 7; pub const MAX: u8 = 9; }
        #[allow(dead_code)] pub mod usize { pub const MIN: u8 = 7; pub const MAX: u8 = 9; }
        #[allow(dead_code)] pub mod str { pub fn from_utf8() {} }
        // derive macros imported under the names of the built-in derives (macro namespace)
        #[allow(unused_imports)] use ::enum_tools::EnumTools as Clone;
        #[allow(unused_imports)] use ::enum_tools::EnumTools as Copy;
        #[allow(unused_imports)] use ::enum_tools::EnumTools as Default;
        #[allow(unused_imports)] use ::enum_tools::EnumTools as PartialEq;
        #[allow(unused_imports)] use ::enum_tools::EnumTools as Eq;
        #[allow(unused_imports)] use ::enum_tools::EnumTools as Hash;
        #[allow(unused_imports)] use ::enum_tools::EnumTools as PartialOrd;
        #[allow(unused_imports)] use ::enum_tools::EnumTools as Ord;
        #[allow(dead_code)] pub fn transmute() {}
        #[allow(dead_code)] pub fn drop() {}
        #[allow(unused_macros)] macro_rules! Some { ($($t:tt)*) => { compile_error!("user macro Some! used") } }
        #[allow(unused_macros)] macro_rules! None { ($($t:tt)*) => { compile_error!("user macro None! used") } }
        #[allow(unused_macros)] macro_rules! Ok { ($($t:tt)*) => { compile_error!("user macro Ok! used") } }
        #[allow(unused_macros)] macro_rules! Err { ($($t:tt)*) => { compile_error!("user macro Err! used") } }
        #[allow(unused_macros)] macro_rules! Option { ($($t:tt)*) => { compile_error!("user macro Option! used") } }
        #[allow(unused_macros)] macro_rules! matches { ($($t:tt)*) => { compile_error!("user macro matches! used") } }
        #[allow(unused_macros)] macro_rules! unreachable { ($($t:tt)*) => { compile_error!("user macro unreachable! used") } }
        #[allow(unused_macros)] macro_rules! panic { ($($t:tt)*) => { compile_error!("user macro panic! used") } }
        #[allow(unused_macros)] macro_rules! assert { ($($t:tt)*) => { compile_error!("user macro assert! used") } }
        #[allow(unused_macros)] macro_rules! debug_assert { ($($t:tt)*) => { compile_error!("user macro debug_assert! used") } }
        #[allow(unused_macros)] macro_rules! assert_eq { ($($t:tt)*) => { compile_error!("user macro assert_eq! used") } }
        #[allow(unused_macros)] macro_rules! todo { ($($t:tt)*) => { compile_error!("user macro todo! used") } }
        #[allow(unused_macros)] macro_rules! unimplemented { ($($t:tt)*) => { compile_error!("user macro unimplemented! used") } }
        #[allow(unused_macros)] macro_rules! write { ($($t:tt)*) => { compile_error!("user macro write! used") } }
        #[allow(unused_macros)] macro_rules! format_args { ($($t:tt)*) => { compile_error!("user macro format_args! used") } }
        #[allow(unused_macros)] macro_rules! concat { ($($t:tt)*) => { compile_error!("user macro concat! used") } }
        #[allow(unused_macros)] macro_rules! stringify { ($($t:tt)*) => { compile_error!("user macro stringify! used") } }
        #[allow(unused_macros)] macro_rules! vec { ($($t:tt)*) => { compile_error!("user macro vec! used") } }
        #[allow(unused_macros)] macro_rules! cfg { ($($t:tt)*) => { compile_error!("user macro cfg! used") } }
        #[allow(unused_macros)] macro_rules! line { ($($t:tt)*) => { compile_error!("user macro line! used") } }
        #[allow(unused_macros)] macro_rules! r#try { ($($t:tt)*) => { compile_error!("user macro try! used") } }
"""


def subject_text(case: Case, marker=True) -> str:
    """the enum with its derive, inside `mod subject`, in the case's context"""
    d, cfg = case.decl, case.cfg
    ctx = case.context
    lines = []
    lines.append("    pub mod subject {")
    if ctx in ("noprelude", "hostile", "nostd_hostile"):
        lines.append("        #![no_implicit_prelude]")
        derive = "#[derive(::core::clone::Clone, ::core::marker::Copy, ::enum_tools::EnumTools)]"
    else:
        lines.append("        use enum_tools::EnumTools;")
        derive = "#[derive(Clone, Copy, EnumTools)]"
    if ctx in ("hostile", "nostd_hostile"):
        lines.append(HOSTILE_ITEMS)
    attrs = list(cfg.attrs())
    if marker:
        attrs = ["#[doc = \"case:%06d\"]" % case.id] + attrs
    body = d.text(derive, attrs)
    lines.extend("        " + l for l in body.split("\n"))
    if case.tags.get("nested"):
        # adapter as a child module: private (vis = "") items are reachable from here
        lines.append("        pub mod adapter {")
        lines.append(adapter_text(case, "super::%s" % d.name))
        lines.append("        }")
    lines.append("    }")
    return "\n".join(lines)


def adapter_text(case: Case, epath=None) -> str:
    d, cfg = case.decl, case.cfg
    E = d.name
    n = len(d.variants)
    L = []
    A = L.append
    A("    use %s as E;" % (epath or ("self::subject::%s" % E)))
    A("    use monitor_core::{run_history, run_history_ord, Op, Sink, VTable, Val, D};")
    A("    type R = %s;" % d.repr)
    A("    const N: usize = %d;" % n)
    A("    const V: [E; N] = [%s];" % ", ".join("E::%s" % v.ident for v in d.variants))
    A("    static MODEL: [(D, &str); N] = [%s];" % ", ".join(
        "(%d, %s)" % (v.value, rust_str(v.name)) for v in d.variants))
    A("    static IDENTS: [&str; N] = [%s];" % ", ".join(rust_str(v.ident) for v in d.variants))
    A("    #[inline(never)] fn d(v: E) -> D { v as R as D }")
    A("    fn f_disc(i: usize) -> D { d(V[i]) }")
    ent = {}

    def fn(key, sig, body):
        A("    fn f_%s%s { %s }" % (key, sig, body))
        ent[key] = "Some(f_%s)" % key

    nm = cfg.item_name
    if cfg.has("try_from"):
        fn("try_from_fn", "(b: u128) -> Option<D>", "E::%s(b as R).map(d)" % nm("try_from"))
    if cfg.has("TryFrom"):
        fn("try_from_trait", "(b: u128) -> Option<D>",
           "<E as core::convert::TryFrom<R>>::try_from(b as R).ok().map(d)")
    if cfg.has("into"):
        fn("into_fn", "(i: usize) -> D", "E::%s(V[i]) as D" % nm("into"))
    if cfg.has("Into"):
        fn("into_trait", "(i: usize) -> D", "<R as core::convert::From<E>>::from(V[i]) as D")
    if cfg.has("as_str"):
        fn("as_str", "(i: usize) -> &'static str", "E::%s(V[i])" % nm("as_str"))
    if cfg.has("Display"):
        fn("display", "(i: usize, w: &mut dyn core::fmt::Write) -> core::fmt::Result",
           "core::write!(w, \"{}\", V[i])")
    if cfg.has("Debug"):
        fn("debug", "(i: usize, w: &mut dyn core::fmt::Write) -> core::fmt::Result",
           "core::write!(w, \"{:?}\", V[i])")
    if cfg.has("IntoStr"):
        fn("into_str", "(i: usize) -> &'static str",
           "<&'static str as core::convert::From<E>>::from(V[i])")
    if cfg.has("from_str"):
        fn("from_str_fn", "(s: &str) -> Option<D>", "E::%s(s).map(d)" % nm("from_str"))
    if cfg.has("FromStr"):
        fn("from_str_trait", "(s: &str) -> Option<D>",
           "<E as core::str::FromStr>::from_str(s).ok().map(d)")
    if cfg.has("MIN"):
        fn("min", "() -> D", "d(E::%s)" % nm("MIN"))
    if cfg.has("MAX"):
        fn("max", "() -> D", "d(E::%s)" % nm("MAX"))
    if cfg.has("next"):
        fn("next", "(i: usize) -> Option<D>", "E::%s(V[i]).map(d)" % nm("next"))
    if cfg.has("next_back"):
        fn("next_back", "(i: usize) -> Option<D>", "E::%s(V[i]).map(d)" % nm("next_back"))
    A("    #[allow(dead_code)] fn cv(v: E) -> Val { Val::D(d(v)) }")
    A("    #[allow(dead_code)] fn cs(s: &'static str) -> Val { Val::S(s) }")
    if cfg.has("iter"):
        fn("iter", "(ops: &[Op], sink: &mut dyn Sink)",
           "run_history(E::%s(), ops, cv, sink)" % nm("iter"))
    if cfg.has("range"):
        fn("range", "(a: usize, b: usize, ops: &[Op], sink: &mut dyn Sink)",
           "run_history(E::%s(V[a], V[b]), ops, cv, sink)" % nm("range"))
    if cfg.has("names"):
        fn("names", "(ops: &[Op], sink: &mut dyn Sink)",
           "run_history_ord(E::%s(), ops, cs, sink)" % nm("names"))
    if cfg.has("iter") and cfg.has("names"):
        fn("zip", "(sink: &mut dyn Sink)",
           "for (v, s) in E::%s().zip(E::%s()) { sink.pair(d(v), s) }" % (nm("iter"), nm("names")))
    lo, hi = case.probe_lo, case.probe_hi
    from .spec import repr_range
    rlo, rhi = repr_range(d.repr)
    if lo is None:
        lo = rlo
    if hi is None:
        hi = rhi
    hi = min(hi, (1 << 127) - 1)
    A("    pub static VT: VTable = VTable {")
    A("        id: %d, n: N, rbits: R::BITS, rsigned: R::MIN != 0," % case.id)
    A("        model: &MODEL, idents: &IDENTS, probe_lo: %d, probe_hi: %d, disc: f_disc," % (lo, hi))
    for key in ["try_from_fn", "try_from_trait", "into_fn", "into_trait", "as_str", "display",
                "debug", "into_str", "from_str_fn", "from_str_trait", "min", "max", "next",
                "next_back", "iter", "range", "names", "zip"]:
        A("        %s: %s," % (key, ent.get(key, "None")))
    A("    };")
    return "\n".join(L)


def case_module(case: Case) -> str:
    """contents of the file `k<id>.rs` (= module `k<id>` of the case crate)"""
    if case.tags.get("nested"):
        tail = "pub use self::subject::adapter::VT;"
    else:
        tail = adapter_text(case)
    return ("// case %06d  shape=%s context=%s\n#![allow(unused_imports, dead_code, unreachable_patterns, non_camel_case_types)]\n%s\n%s\n"
            % (case.id, case.decl.shape, case.context, subject_text(case), tail))


def write_if_changed(path: str, text: str) -> bool:
    try:
        with open(path, "r", encoding="utf-8") as f:
            if f.read() == text:
                return False
    except FileNotFoundError:
        pass
    os.makedirs(os.path.dirname(path), exist_ok=True)
    with open(path, "w", encoding="utf-8") as f:
        f.write(text)
    return True


def crate_manifest(name: str, deps: dict, kind="lib") -> str:
    lines = ["[package]", "name = \"%s\"" % name, "version = \"0.0.0\"", "edition = \"2021\"", ""]
    if kind == "lib":
        lines += ["[lib]", "path = \"src/lib.rs\"", "doctest = false", "test = false", ""]
    lines.append("[dependencies]")
    for k, v in deps.items():
        lines.append("%s = %s" % (k, v))
    return "\n".join(lines) + "\n"


def dep_enum_tools(hooks=True) -> str:
    if hooks:
        return "{ path = \"%s\", features = [\"verif_hooks\"] }" % repo_path()
    return "{ path = \"%s\" }" % repo_path()


def emit_case_crate(root: str, crate: str, cases: list, no_std=False) -> None:
    """a lib crate with one file per case and `pub static CASES`"""
    cdir = os.path.join(root, crate)
    src = os.path.join(cdir, "src")
    os.makedirs(src, exist_ok=True)
    write_if_changed(os.path.join(cdir, "Cargo.toml"), crate_manifest(crate, {
        "enum-tools": dep_enum_tools(),
        "monitor_core": "{ path = \"%s/monitor_core\" }" % VERIF,
    }))
    keep = {"lib.rs"}
    mods = []
    for c in cases:
        fname = "k%06d.rs" % c.id
        keep.add(fname)
        write_if_changed(os.path.join(src, fname), case_module(c))
        mods.append("pub mod k%06d;" % c.id)
    lib = []
    if no_std:
        lib.append("#![no_std]")
    lib.append("#![allow(clippy::all)]")
    lib.extend(mods)
    lib.append("pub static CASES: &[&monitor_core::VTable] = &[%s];" % ", ".join(
        "&k%06d::VT" % c.id for c in cases))
    write_if_changed(os.path.join(src, "lib.rs"), "\n".join(lib) + "\n")
    for f in os.listdir(src):
        if f not in keep:
            os.remove(os.path.join(src, f))


def emit_harness(root: str, crates: list) -> None:
    hdir = os.path.join(root, "harness")
    deps = {"monitor": "{ path = \"%s/monitor\" }" % VERIF}
    for c in crates:
        deps[c] = "{ path = \"../%s\" }" % c
    write_if_changed(os.path.join(hdir, "Cargo.toml"), crate_manifest("harness", deps, kind="bin"))
    main = "fn main() {\n    monitor::main_with(&[%s]);\n}\n" % ", ".join("%s::CASES" % c for c in crates)
    write_if_changed(os.path.join(hdir, "src", "main.rs"), main)


WORKSPACE_PROFILE = """
[profile.dev]
opt-level = 0
debug = false
debug-assertions = true
overflow-checks = true
incremental = false

[profile.release]
opt-level = 2
debug = 1
debug-assertions = false
overflow-checks = false
incremental = false
"""


def emit_workspace(root: str, members: list) -> None:
    os.makedirs(root, exist_ok=True)
    text = "[workspace]\nresolver = \"2\"\nmembers = [%s]\n%s" % (
        ", ".join("\"%s\"" % m for m in members), WORKSPACE_PROFILE)
    write_if_changed(os.path.join(root, "Cargo.toml"), text)
    lock = os.path.join(root, "Cargo.lock")
    if not os.path.exists(lock):
        shutil.copy(os.path.join(repo_path(), "Cargo.lock"), lock)
    # remove member dirs which are no longer part of the workspace
    for f in os.listdir(root):
        p = os.path.join(root, f)
        if os.path.isdir(p) and f not in members and f not in ("target", "hook", "hooklog", "out", "iso") \
                and os.path.exists(os.path.join(p, "Cargo.toml")):
            shutil.rmtree(p)
