#!/bin/sh
# offline setup: compile the monitors and warm the quick runtime corpus
set -e
cd "$(dirname "$0")"
export CARGO_NET_OFFLINE=true
# the monitors must fire on deliberately wrong hand-written subjects and stay silent on a correct one
(cd monitor && CARGO_TARGET_DIR=../work/selftest-target cargo test --offline -q 2>&1 | tail -3)
python3 - <<'PY'
import sys
sys.path.insert(0, '.')
from vf.rungroup import RunGroup
from vf.build import Lock
g = RunGroup('quick', 1)
with Lock(g.root + '.lock'):
    g.prepare()
print('setup: quick runtime corpus built:', len(g.cases), 'cases; dropped', len(g.dropped))
PY
