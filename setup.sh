#!/bin/sh
# offline setup: compile the monitors and warm the quick runtime corpus
set -e
cd "$(dirname "$0")"
export CARGO_NET_OFFLINE=true
python3 - <<'PY'
import sys
sys.path.insert(0, '.')
from vf.rungroup import RunGroup
from vf.build import Lock
g = RunGroup('quick', 1)
with Lock(g.root + '.lock'):
    g.prepare()
print('setup: quick runtime corpus built:', len(g.cases), 'cases; dropped', len(g.dropped))
PY
