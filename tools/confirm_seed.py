#!/usr/bin/env python3
"""Confirm a sub-agent's seeded change in its scratch worktree, then run the checks against it.

  tools/confirm_seed.py /tmp/wt-C07/seeded/a  S07a  [--props ...]

1. clean worktree: existing tests pass, demo passes
2. patch applied: crate builds, existing tests pass, demo fails
3. tools/seedtest.py with the patch
4. on success copies patch.diff, demo, meta.json (+ what we ran and which checks caught it) to /verif/seeded/<id>/"""
import json
import os
import shutil
import subprocess
import sys

VERIF = os.path.dirname(os.path.dirname(os.path.abspath(__file__)))


def sh(cmd, cwd, timeout=1800):
    env = dict(os.environ)
    env["CARGO_NET_OFFLINE"] = "true"
    env["RUST_BACKTRACE"] = "0"
    p = subprocess.run(cmd, cwd=cwd, shell=True, capture_output=True, text=True, env=env, timeout=timeout)
    return p.returncode, (p.stdout + p.stderr)


def suite(wt):
    rc, out = sh("cargo test --workspace --no-fail-fast --offline 2>&1 | grep -E 'test result|FAILED|error' ", wt)
    passed = failed = 0
    for l in out.splitlines():
        if l.startswith("test result"):
            parts = l.split()
            passed += int(parts[3])
            failed += int(parts[5])
    return passed, failed, out


def demo(wt, sdir):
    if os.path.exists(os.path.join(sdir, "demo.rs")):
        shutil.copy(os.path.join(sdir, "demo.rs"), os.path.join(wt, "tests", "seeded_demo.rs"))
        try:
            rc, out = sh("cargo test --offline --test seeded_demo 2>&1 | tail -40", wt)
            ok = "test result: ok" in out and "FAILED" not in out and "error" not in out.split("test result")[0][-2000:].lower().replace("error::", "")
            # robust: rely on cargo's exit code
            rc2, _ = sh("cargo test --offline --test seeded_demo >/dev/null 2>&1", wt)
            return rc2 == 0, out[-1500:]
        finally:
            os.remove(os.path.join(wt, "tests", "seeded_demo.rs"))
    if os.path.exists(os.path.join(sdir, "demo.sh")):
        rc, out = sh("bash %s 2>&1 | tail -40" % os.path.join(sdir, "demo.sh"), wt)
        rc2, _ = sh("bash %s >/dev/null 2>&1" % os.path.join(sdir, "demo.sh"), wt)
        return rc2 == 0, out[-1500:]
    return None, "no demo"


def main(argv):
    sdir = os.path.abspath(argv[0])
    sid = argv[1]
    wt = os.path.dirname(os.path.dirname(sdir))
    patch = os.path.join(sdir, "patch.diff")
    ran = []
    rc, out = sh("git status --porcelain --untracked-files=no", wt)
    if out.strip():
        print("worktree not clean:", out)
        return 3
    rc, out = sh("git apply --check %s" % patch, wt)
    if rc != 0:
        print("patch does not apply", out)
        return 3
    rc, out = sh("git apply --numstat %s" % patch, wt)
    touched = [l.split()[-1] for l in out.splitlines() if l.strip()]
    if any(not t.startswith("src/") for t in touched) or any("verif" in t for t in touched):
        print("patch touches files outside src/ or the hook:", touched)
        return 3
    ok_clean, out_clean = demo(wt, sdir)
    ran.append("clean tree: demo %s" % ("passes" if ok_clean else "FAILS"))
    sh("git apply %s" % patch, wt)
    try:
        p, f, sout = suite(wt)
        ran.append("patched: cargo test --workspace --no-fail-fast --offline -> %d passed, %d failed" % (p, f))
        ok_patched, out_patched = demo(wt, sdir)
        ran.append("patched: demo %s" % ("passes" if ok_patched else "fails"))
    finally:
        sh("git checkout -- .", wt)
    print("\n".join(ran))
    if not (ok_clean is True and ok_patched is False and f == 0 and p >= 48):
        print("NOT CONFIRMED", out_clean[-600:], out_patched[-600:], sout[-600:])
        return 2
    args = [os.path.join(VERIF, "tools", "seedtest.py"), patch, "--json", "/tmp/seedres-%s.json" % sid] + argv[2:]
    r = subprocess.run(args, capture_output=True, text=True)
    print(r.stdout[-3500:])
    res = json.load(open("/tmp/seedres-%s.json" % sid))
    caught = [k for k, v in res.items() if v["rc"] == 1]
    dst = os.path.join(VERIF, "seeded", sid)
    shutil.rmtree(dst, ignore_errors=True)
    os.makedirs(dst)
    for fn in ("patch.diff", "demo.rs", "demo.sh"):
        if os.path.exists(os.path.join(sdir, fn)):
            shutil.copy(os.path.join(sdir, fn), os.path.join(dst, fn))
    meta = {}
    try:
        meta = json.load(open(os.path.join(sdir, "meta.json")))
    except Exception as e:
        meta = {"note": "agent meta.json unreadable: %s" % e}
    meta["id"] = sid
    meta["confirmed_by_us"] = ran
    meta["checks_run"] = "tools/seedtest.py %s (quick tier of %s, scratch copy of /repo with the patch, VERIF_REPO)" % (
        "patch.diff", ",".join(sorted(res)))
    meta["caught_by_quick"] = caught
    meta["first_witness"] = {k: v["first"] for k, v in res.items() if v["rc"] == 1}
    meta["inconclusive"] = [k for k, v in res.items() if v["rc"] == 2]
    with open(os.path.join(dst, "meta.json"), "w") as fh:
        json.dump(meta, fh, indent=1)
    print("SEED %s caught_by=%s" % (sid, caught))
    return 0


if __name__ == "__main__":
    sys.exit(main(sys.argv[1:]))
