#!/usr/bin/env python3
"""Re-run the quick checks against every filed seeded change (seeded/*/patch.diff) with the
current machinery and the current /repo HEAD, N in parallel, and record the outcome in each
meta.json under "caught_by_quick" (history of earlier runs is kept under "earlier_runs").

  tools/reseed.py [--workers 4] [--only S07b,R01a] [--props ...]"""
import json
import os
import subprocess
import sys
import time
from concurrent.futures import ThreadPoolExecutor

VERIF = os.path.dirname(os.path.dirname(os.path.abspath(__file__)))


def one(sid, extra):
    d = os.path.join(VERIF, "seeded", sid)
    out = "/tmp/reseed-%s.json" % sid
    if os.path.exists(out):
        os.remove(out)
    r = subprocess.run([os.path.join(VERIF, "tools", "seedtest.py"), os.path.join(d, "patch.diff"), "--json", out] + extra,
                       capture_output=True, text=True)
    if not os.path.exists(out):
        return sid, None, r.stdout[-500:] + r.stderr[-500:]
    res = json.load(open(out))
    return sid, res, ""


def main(argv):
    workers = int(argv[argv.index("--workers") + 1]) if "--workers" in argv else 4
    only = argv[argv.index("--only") + 1].split(",") if "--only" in argv else None
    extra = ["--props", argv[argv.index("--props") + 1]] if "--props" in argv else []
    skip = argv[argv.index("--skip") + 1].split(",") if "--skip" in argv else []
    if skip:
        extra = ["--props", ",".join("C%02d" % i for i in range(1, 20) if "C%02d" % i not in skip)]
    ids = sorted(x for x in os.listdir(os.path.join(VERIF, "seeded")) if os.path.exists(os.path.join(VERIF, "seeded", x, "patch.diff")))
    if only:
        ids = [i for i in ids if i in only]
    head = subprocess.run(["git", "-C", "/repo", "log", "--format=%h", "-1"], capture_output=True, text=True).stdout.strip()
    vhead = subprocess.run(["git", "-C", VERIF, "log", "--format=%h", "-1"], capture_output=True, text=True).stdout.strip()
    with ThreadPoolExecutor(max_workers=workers) as ex:
        for sid, res, err in ex.map(lambda s: one(s, extra), ids):
            mp = os.path.join(VERIF, "seeded", sid, "meta.json")
            meta = json.load(open(mp))
            if res is None:
                print(sid, "FAILED TO RUN", err)
                continue
            caught = sorted(k for k, v in res.items() if v["rc"] == 1)
            incon = sorted(k for k, v in res.items() if v["rc"] == 2)
            if skip:
                # checks skipped in this run keep their earlier verdict
                old_c = [p for p in meta.get("caught_by_quick", []) if p in skip]
                old_i = [p for p in meta.get("inconclusive", []) if p in skip]
                caught = sorted(set(caught) | set(old_c))
                incon = sorted(set(incon) | set(old_i))
            if not extra or skip:
                if "caught_by_quick" in meta:
                    meta.setdefault("earlier_runs", []).append({"caught_by_quick": meta.get("caught_by_quick"),
                                                                "inconclusive": meta.get("inconclusive")})
                meta["caught_by_quick"] = caught
                meta["inconclusive"] = incon
                fw = {k: v for k, v in meta.get("first_witness", {}).items() if k in skip}
                fw.update({k: v["first"] for k, v in res.items() if v["rc"] == 1})
                meta["first_witness"] = fw
                meta["last_run"] = {"repo_head": head, "verif_head": vhead, "at": time.strftime("%Y-%m-%d %H:%M"),
                                    "checks_not_rerun": skip}
                json.dump(meta, open(mp, "w"), indent=1)
            print(sid, "caught_by", caught, "inconclusive", incon, flush=True)
    return 0


if __name__ == "__main__":
    sys.exit(main(sys.argv[1:]))
