#!/usr/bin/env python3
"""Systematic self-assessment: single-line mutants of the macro's sources.

  tools/mutate.py list                       -> prints the mutant catalogue (index, file:line, old -> new)
  tools/mutate.py run  [--workers 4] [--from i] [--to j] [--props C01,...] [--out results.jsonl]

For every mutant, in a scratch worktree of /repo (outside /repo and /verif, removed at the end):
  1. apply the one-line change; `cargo build` must succeed (else: stillborn, skipped)
  2. the pinned test suite must still pass (else: killed by the existing tests, skipped - not a realistic change)
  3. run the quick checks with VERIF_REPO pointing at the worktree; record which checks raise VIOLATION
Survivors (no check fires) are either equivalent mutants or blind spots; they are triaged by hand and
recorded in DESIGN.md.  Nothing here is a registered check."""
import json
import os
import re
import shutil
import subprocess
import sys
import time
from concurrent.futures import ThreadPoolExecutor

VERIF = os.path.dirname(os.path.dirname(os.path.abspath(__file__)))
REPO = "/repo"
FAST = ["C01", "C03", "C04", "C05", "C06", "C07", "C08", "C09", "C10", "C11", "C13", "C14", "C15", "C16", "C18", "C19", "C12", "C17"]

RULES = [
    (r" >= ", " > "), (r" <= ", " < "), (r" > ", " >= "), (r" < ", " <= "), (r" == ", " != "), (r" != ", " == "),
    (r" \+ 1", " + 2"), (r" \+ 1", " - 1"), (r" - 1", " + 1"), (r"\+= ", "-= "),
    (r"wrapping_add", "wrapping_sub"), (r"wrapping_sub", "wrapping_add"),
    (r"\btrue\b", "false"), (r"\bfalse\b", "true"), (r" && ", " || "), (r" \|\| ", " && "),
    (r"\.next_back\(\)", ".next()"), (r"\.next\(\)", ".next_back()"),
    (r"\.start\(\)", ".end()"), (r"\.end\(\)", ".start()"),
    (r"\.first\(\)", ".last()"), (r"\.last\(\)", ".first()"),
    (r"ident_min\b", "ident_max"), (r"ident_max\b", "ident_min"),
    (r"min_key\b", "max_key"), (r"max_key\b", "min_key"),
    (r"is_gapless\(\)", "is_with_holes()"), (r"is_with_holes\(\)", "is_gapless()"),
    (r"start_idx", "end_idx"), (r"end_idx", "start_idx"),
    (r"\.nth\(n\)", ".nth_back(n)"), (r"\.nth_back\(n\)", ".nth(n)"),
    (r"\.fold\(init, ?f\)", ".rfold(init,f)"), (r"\.rfold\(init, ?f\)", ".fold(init,f)"),
    (r"repr_unsigned", "repr"), (r"\b8\b", "16"), (r"\b8\b", "4"), (r"u16::MAX", "u8::MAX"),
    (r"\"pub\(crate\)\"", "\"pub(super)\""), (r"Visibility::Inherited", "Visibility::Public(Default::default())"),
    (r"#vis ", ""), (r"\.skip\(1\)", ""), (r" \+ 1\b", ""), (r" as #repr_unsigned", ""),
    (r"\.0\b", ".1"), (r"Some\(start\)", "Some(end)"), (r"Some\(end\)", "Some(start)"),
    (r"\(start: Self, end: Self\)", "(end: Self, start: Self)"),
    (r"#name => ", "_ if false => "), (r"\*e\b", "*e"),
]
DELETE_LINE = [
    r"^\s*features\.[a-z_]+\.[a-z_]+ = true;\s*$", r"^\s*emit_error!\(.*\);\s*$", r"^\s*self\.table_name\.enabled = true;\s*$",
    r"^\s*values\.sort_by_key\(.*\);\s*$", r"^\s*self\.len -= 1;\s*$", r"^\s*last = i;\s*$", r"^\s*last = \*i;\s*$",
    r"^\s*name = lit_str\.value\(\);\s*$", r"^\s*negate = true;\s*$", r"^\s*i = -i;\s*$",
]


def sources():
    out = []
    for dp, dn, fn in os.walk(os.path.join(REPO, "src")):
        for f in sorted(fn):
            if f.endswith(".rs") and f != "verif.rs" and f != "error.rs":
                out.append(os.path.join(dp, f))
    return sorted(out)


def catalogue():
    muts = []
    for path in sources():
        rel = os.path.relpath(path, REPO)
        lines = open(path, encoding="utf-8").read().split("\n")
        in_doc = False
        for ln, line in enumerate(lines):
            st = line.strip()
            if st.startswith("//") or st.startswith("use ") or st.startswith("#[") or st.startswith("pub(crate) mod") or not st:
                continue
            if "cfg(feature = \"verif_hooks\")" in line or "verif::" in line:
                continue
            seen = set()
            for pat, rep in RULES:
                for m in re.finditer(pat, line):
                    new = line[:m.start()] + rep + line[m.end():]
                    if new != line and new not in seen:
                        seen.add(new)
                        muts.append((rel, ln, line, new))
            for pat in DELETE_LINE:
                if re.match(pat, line):
                    muts.append((rel, ln, line, ""))
    return muts


def sh(cmd, cwd, env=None, timeout=3600):
    e = dict(os.environ)
    e["CARGO_NET_OFFLINE"] = "true"
    e["RUST_BACKTRACE"] = "0"
    if env:
        e.update(env)
    p = subprocess.run(cmd, cwd=cwd, shell=True, capture_output=True, text=True, env=e, timeout=timeout)
    return p.returncode, p.stdout + p.stderr


def worker(wid, todo, props, outpath, lock):
    base = "/tmp/mutate-%d-%d" % (os.getpid(), wid)
    shutil.rmtree(base, ignore_errors=True)
    os.makedirs(base)
    wt = os.path.join(base, "repo")
    subprocess.run(["git", "-C", REPO, "worktree", "add", "-q", "--detach", wt, "HEAD"], check=True)
    env = {"VERIF_REPO": wt, "VERIF_WORK": os.path.join(base, "work"),
           "VERIF_EVIDENCE_DIR": os.path.join(base, "evidence"), "VERIF_REPLAY_DIR": os.path.join(base, "replay")}
    try:
        for idx, (rel, ln, old, new) in todo:
            t0 = time.time()
            path = os.path.join(wt, rel)
            orig = open(path, encoding="utf-8").read()
            lines = orig.split("\n")
            assert lines[ln] == old, (rel, ln)
            lines[ln] = new
            rec = {"i": idx, "file": rel, "line": ln + 1, "old": old.strip(), "new": new.strip()}
            try:
                open(path, "w", encoding="utf-8").write("\n".join(lines))
                rc, out = sh("cargo build --offline 2>&1 | tail -5", wt)
                rc, _ = sh("cargo build --offline >/dev/null 2>&1", wt)
                if rc != 0:
                    rec["status"] = "stillborn"
                else:
                    rc, out = sh("timeout -k 5 400 cargo test --workspace --no-fail-fast --offline >/dev/null 2>&1", wt)
                    if rc != 0:
                        rec["status"] = "killed-by-existing-tests"
                    else:
                        caught, incon = [], []
                        for p in props:
                            r = subprocess.run([os.path.join(VERIF, "check"), p, "--tier", "quick"], cwd=VERIF,
                                               env=dict(os.environ, **env), capture_output=True, text=True)
                            if r.returncode == 1:
                                caught.append(p)
                                if "first" not in rec:
                                    o = r.stdout.splitlines()
                                    for k, l in enumerate(o):
                                        if l.startswith("VIOLATION") and k + 1 < len(o):
                                            rec["first"] = o[k + 1].strip()[:300]
                                            break
                                if len(caught) >= 2 and "--all" not in sys.argv:
                                    break
                            elif r.returncode != 0:
                                incon.append(p)
                        rec["status"] = "caught" if caught else ("inconclusive" if incon else "SURVIVED")
                        rec["caught_by"] = caught
                        rec["inconclusive"] = incon
            finally:
                open(path, "w", encoding="utf-8").write(orig)
            rec["s"] = round(time.time() - t0, 1)
            with lock:
                with open(outpath, "a") as fh:
                    fh.write(json.dumps(rec) + "\n")
                print("%4d %-26s %s:%d  %s -> %s  %s" % (idx, rec["status"], rel, ln + 1, old.strip()[:50], new.strip()[:50],
                                                         ",".join(rec.get("caught_by", []))), flush=True)
    finally:
        subprocess.run(["git", "-C", REPO, "worktree", "remove", "--force", wt], capture_output=True)
        shutil.rmtree(base, ignore_errors=True)


def main(argv):
    muts = catalogue()
    if argv[0] == "list":
        for i, (rel, ln, old, new) in enumerate(muts):
            print("%4d %s:%d  %s  ->  %s" % (i, rel, ln + 1, old.strip(), new.strip() or "<deleted>"))
        print(len(muts), "mutants")
        return 0
    workers = int(argv[argv.index("--workers") + 1]) if "--workers" in argv else 4
    lo = int(argv[argv.index("--from") + 1]) if "--from" in argv else 0
    hi = int(argv[argv.index("--to") + 1]) if "--to" in argv else len(muts)
    props = argv[argv.index("--props") + 1].split(",") if "--props" in argv else FAST
    outpath = argv[argv.index("--out") + 1] if "--out" in argv else "/tmp/mutants.jsonl"
    done = set()
    if os.path.exists(outpath):
        for l in open(outpath):
            done.add(json.loads(l)["i"])
    todo = [(i, m) for i, m in enumerate(muts) if lo <= i < hi and i not in done]
    import threading
    lock = threading.Lock()
    parts = [todo[k::workers] for k in range(workers)]
    with ThreadPoolExecutor(max_workers=workers) as ex:
        list(ex.map(lambda a: worker(a[0], a[1], props, outpath, lock), enumerate(parts)))
    return 0


if __name__ == "__main__":
    sys.exit(main(sys.argv[1:]))
