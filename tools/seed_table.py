#!/usr/bin/env python3
"""prints the markdown table of DESIGN.md section 12 from seeded/*/meta.json"""
import json
import os
import re

VERIF = os.path.dirname(os.path.dirname(os.path.abspath(__file__)))


def short(s, n):
    s = re.sub(r"\s+", " ", str(s or "")).strip()
    return s if len(s) <= n else s[: n - 1] + "…"


rows = []
for sid in sorted(os.listdir(os.path.join(VERIF, "seeded"))):
    mp = os.path.join(VERIF, "seeded", sid, "meta.json")
    if not os.path.exists(mp):
        continue
    m = json.load(open(mp))
    prop = m.get("property")
    if isinstance(prop, list):
        prop = ",".join(prop)
    caught = m.get("caught_by_quick", [])
    note = ""
    if m.get("missed_at_first"):
        note = "missed at first; " + short(m.get("strengthening", ""), 110)
    rows.append("| %s | %s | %s | %s | %s | %s |" % (
        sid, prop, short(m.get("description"), 150).replace("|", "\\|"), short(m.get("needs_to_manifest"), 120).replace("|", "\\|"),
        " ".join(caught) if caught else "**none**", note.replace("|", "\\|")))
print("| id | targets | change | needs | caught by (quick tier) | note |")
print("|---|---|---|---|---|---|")
print("\n".join(rows))
