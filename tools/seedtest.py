#!/usr/bin/env python3
"""Run the quick checks against a scratch copy of /repo carrying a patch.

  tools/seedtest.py <patch.diff> [--props C01,C07,...] [--tier quick] [--keep]

The scratch copy, its work dir, evidence and replay files live under /tmp/seedtest-<pid>
and are removed afterwards.  Prints which properties raised VIOLATION."""
import json
import os
import shutil
import subprocess
import sys
import time

VERIF = os.path.dirname(os.path.dirname(os.path.abspath(__file__)))
ALL = ["C%02d" % i for i in range(1, 20)]


def main(argv):
    patch = os.path.abspath(argv[0])
    props = ALL
    tier = "quick"
    if "--props" in argv:
        props = argv[argv.index("--props") + 1].split(",")
    if "--tier" in argv:
        tier = argv[argv.index("--tier") + 1]
    reverse = "--reverse" in argv
    base = "/tmp/seedtest-%d" % os.getpid()
    shutil.rmtree(base, ignore_errors=True)
    os.makedirs(base)
    repo = os.path.join(base, "repo")
    try:
        base_commit = argv[argv.index("--base") + 1] if "--base" in argv else "HEAD"
        subprocess.run(["git", "-C", "/repo", "worktree", "add", "-q", "--detach", repo, base_commit], check=True)
        r = subprocess.run(["git", "-C", repo, "apply"] + (["-R"] if reverse else []) + [patch], capture_output=True, text=True)
        if r.returncode != 0 and not reverse:
            r = subprocess.run(["git", "-C", repo, "apply", "--3way", patch], capture_output=True, text=True)
        if r.returncode != 0:
            print("patch does not apply:", r.stderr)
            return 3
        env = dict(os.environ)
        env.update({"VERIF_REPO": repo, "VERIF_WORK": os.path.join(base, "work"),
                    "VERIF_EVIDENCE_DIR": os.path.join(base, "evidence"),
                    "VERIF_REPLAY_DIR": os.path.join(base, "replay")})
        results = {}
        for p in props:
            t0 = time.time()
            r = subprocess.run([os.path.join(VERIF, "check"), p, "--tier", tier], cwd=VERIF, env=env,
                               capture_output=True, text=True)
            lines = [l for l in r.stdout.splitlines() if l.startswith(("VIOLATION", "INCONCLUSIVE", "HELD", "KNOWN"))]
            first = ""
            out = r.stdout.splitlines()
            for i, l in enumerate(out):
                if l.startswith("VIOLATION") and i + 1 < len(out):
                    first = out[i + 1].strip()[:400]
                    break
            results[p] = {"rc": r.returncode, "violations": sum(1 for l in lines if l.startswith("VIOLATION")),
                          "inconclusive": [l[:300] for l in lines if l.startswith("INCONCLUSIVE")][:3],
                          "first": first, "s": round(time.time() - t0, 1)}
            tag = {0: "held", 1: "VIOLATION", 2: "inconclusive"}.get(r.returncode, "rc=%d" % r.returncode)
            print("%s %-12s %5.1fs %s" % (p, tag, time.time() - t0, first[:200]), flush=True)
            if r.returncode not in (0, 1, 2):
                print(r.stdout[-1500:], r.stderr[-1500:])
        print(json.dumps({"patch": patch, "caught_by": [p for p, v in results.items() if v["rc"] == 1],
                          "inconclusive": [p for p, v in results.items() if v["rc"] == 2]}))
        if "--json" in argv:
            with open(argv[argv.index("--json") + 1], "w") as fh:
                json.dump(results, fh, indent=1)
        return 0
    finally:
        subprocess.run(["git", "-C", "/repo", "worktree", "remove", "--force", repo], capture_output=True)
        if "--keep" not in argv:
            shutil.rmtree(base, ignore_errors=True)


if __name__ == "__main__":
    sys.exit(main(sys.argv[1:]))
