//! Boundary between generated harness cases and the monitors.
//!
//! Every case fills in one `VTable`: plain `fn` pointers which call the derived items of
//! one enum and cross the boundary in *model space* (discriminants widened to `i128`,
//! `&str`, variant index in declaration order).  No checking logic lives here.
#![no_std]

/// model-space discriminant
pub type D = i128;

#[derive(Clone, Copy, Debug, PartialEq, Eq)]
pub enum Op {
    Next,
    NextBack,
    Nth(usize),
    NthBack(usize),
    Len,
    SizeHint,
    // consuming operations (a history ends with at most one of them)
    Fold,
    RFold,
    Last,
    Count,
    Collect,
    RevCollect,
}

#[derive(Clone, Copy, Debug, PartialEq, Eq)]
pub enum Val {
    D(D),
    S(&'static str),
}

/// Receiver of iterator observations; implemented by the monitors.
pub trait Sink {
    /// about to apply `op` (index in the script)
    fn op(&mut self, idx: usize, op: Op);
    /// result of next / next_back / nth / nth_back / last
    fn item(&mut self, v: Option<Val>);
    fn len(&mut self, n: usize);
    fn size_hint(&mut self, lo: usize, hi: Option<usize>);
    /// one element seen by fold / rfold / collect / rev().collect
    fn seq_item(&mut self, v: Val);
    /// the consuming operation finished
    fn seq_end(&mut self);
    fn count(&mut self, n: usize);
    /// one pair of iter().zip(names())
    fn pair(&mut self, v: D, s: &'static str);
}

pub type IterFn = fn(&[Op], &mut dyn Sink);
pub type RangeFn = fn(usize, usize, &[Op], &mut dyn Sink);
pub type FmtFn = fn(usize, &mut dyn core::fmt::Write) -> core::fmt::Result;

pub struct VTable {
    pub id: u32,
    /// number of variants
    pub n: usize,
    /// width and signedness of the primitive type as the compiler sees it
    pub rbits: u32,
    pub rsigned: bool,
    /// the generator's model, declaration order: (discriminant, name)
    pub model: &'static [(D, &'static str)],
    /// variant identifiers, declaration order
    pub idents: &'static [&'static str],
    /// probe domain for relational transcripts (intersection of the compared reprs)
    pub probe_lo: D,
    pub probe_hi: D,
    /// ground truth: `variant as repr`, by declaration index
    pub disc: fn(usize) -> D,
    /// argument: bit pattern, truncated to the repr by `as`
    pub try_from_fn: Option<fn(u128) -> Option<D>>,
    pub try_from_trait: Option<fn(u128) -> Option<D>>,
    pub into_fn: Option<fn(usize) -> D>,
    pub into_trait: Option<fn(usize) -> D>,
    pub as_str: Option<fn(usize) -> &'static str>,
    pub display: Option<FmtFn>,
    pub debug: Option<FmtFn>,
    pub into_str: Option<fn(usize) -> &'static str>,
    pub from_str_fn: Option<fn(&str) -> Option<D>>,
    pub from_str_trait: Option<fn(&str) -> Option<D>>,
    pub min: Option<fn() -> D>,
    pub max: Option<fn() -> D>,
    pub next: Option<fn(usize) -> Option<D>>,
    pub next_back: Option<fn(usize) -> Option<D>>,
    pub iter: Option<IterFn>,
    pub range: Option<RangeFn>,
    pub names: Option<IterFn>,
    pub zip: Option<fn(&mut dyn Sink)>,
}

/// Applies a script of iterator operations to the concrete iterator struct, so that
/// `nth_back`, `fold`, `rfold`, `last`, `len` hit the generated forwarders.
pub fn run_history<I, T>(mut it: I, ops: &[Op], conv: fn(T) -> Val, sink: &mut dyn Sink)
where
    I: Iterator<Item = T> + DoubleEndedIterator + ExactSizeIterator,
{
    let mut idx = 0;
    while idx < ops.len() {
        let op = ops[idx];
        sink.op(idx, op);
        match op {
            Op::Next => sink.item(it.next().map(conv)),
            Op::NextBack => sink.item(it.next_back().map(conv)),
            Op::Nth(k) => sink.item(it.nth(k).map(conv)),
            Op::NthBack(k) => sink.item(it.nth_back(k).map(conv)),
            Op::Len => sink.len(it.len()),
            Op::SizeHint => {
                let (lo, hi) = it.size_hint();
                sink.size_hint(lo, hi)
            }
            Op::Fold => {
                it.fold((), |(), x| sink.seq_item(conv(x)));
                sink.seq_end();
                return;
            }
            Op::RFold => {
                it.rfold((), |(), x| sink.seq_item(conv(x)));
                sink.seq_end();
                return;
            }
            Op::Last => {
                sink.item(it.last().map(conv));
                return;
            }
            Op::Count => {
                sink.count(it.count());
                return;
            }
            Op::Collect => {
                // what `collect` does: drive `next` to exhaustion
                for x in it {
                    sink.seq_item(conv(x));
                }
                sink.seq_end();
                return;
            }
            Op::RevCollect => {
                for x in it.rev() {
                    sink.seq_item(conv(x));
                }
                sink.seq_end();
                return;
            }
        }
        idx += 1;
    }
}
