//! Boundary between generated harness cases and the monitors.
//!
//! Every case fills in one `VTable`: plain `fn` pointers which call the derived items of
//! one enum and cross the boundary in *model space* (discriminants widened to `i128`,
//! `&str`, variant index in declaration order).  No checking logic lives here.
#![no_std]

/// model-space discriminant
pub type D = i128;

#[derive(Clone, Copy, Debug, PartialEq, Eq)]
pub enum Op {
    Next,
    NextBack,
    Nth(usize),
    NthBack(usize),
    Len,
    SizeHint,
    // consuming operations (a history ends with at most one of them)
    Fold,
    RFold,
    Last,
    Count,
    Collect,
    RevCollect,
    // provided methods built on the required / forwarded ones (a wrong override would show here)
    /// try_fold which breaks after having visited k (>= 1) items
    TryFoldStop(usize),
    TryRFoldStop(usize),
    /// find() with a predicate that becomes true on the k-th remaining item (0-based)
    FindNth(usize),
    Position(usize),
    RPosition(usize),
    StepBy(usize),
    SkipTake(usize, usize),
    RevNth(usize),
    /// only applied to iterators whose items are Ord (names())
    Min,
    Max,
}

#[derive(Clone, Copy, Debug, PartialEq, Eq, PartialOrd, Ord)]
pub enum Val {
    D(D),
    S(&'static str),
}

/// Receiver of iterator observations; implemented by the monitors.
pub trait Sink {
    /// about to apply `op` (index in the script)
    fn op(&mut self, idx: usize, op: Op);
    /// result of next / next_back / nth / nth_back / last
    fn item(&mut self, v: Option<Val>);
    fn len(&mut self, n: usize);
    fn size_hint(&mut self, lo: usize, hi: Option<usize>);
    /// one element seen by fold / rfold / collect / rev().collect
    fn seq_item(&mut self, v: Val);
    /// the consuming operation finished
    fn seq_end(&mut self);
    fn count(&mut self, n: usize);
    /// one pair of iter().zip(names())
    fn pair(&mut self, v: D, s: &'static str);
    /// result of position / rposition
    fn opt_index(&mut self, i: Option<usize>);
}

pub type IterFn = fn(&[Op], &mut dyn Sink);
pub type RangeFn = fn(usize, usize, &[Op], &mut dyn Sink);
pub type FmtFn = fn(usize, &mut dyn core::fmt::Write) -> core::fmt::Result;

pub struct VTable {
    pub id: u32,
    /// number of variants
    pub n: usize,
    /// width and signedness of the primitive type as the compiler sees it
    pub rbits: u32,
    pub rsigned: bool,
    /// the generator's model, declaration order: (discriminant, name)
    pub model: &'static [(D, &'static str)],
    /// variant identifiers, declaration order
    pub idents: &'static [&'static str],
    /// probe domain for relational transcripts (intersection of the compared reprs)
    pub probe_lo: D,
    pub probe_hi: D,
    /// ground truth: `variant as repr`, by declaration index
    pub disc: fn(usize) -> D,
    /// argument: bit pattern, truncated to the repr by `as`
    pub try_from_fn: Option<fn(u128) -> Option<D>>,
    pub try_from_trait: Option<fn(u128) -> Option<D>>,
    pub into_fn: Option<fn(usize) -> D>,
    pub into_trait: Option<fn(usize) -> D>,
    pub as_str: Option<fn(usize) -> &'static str>,
    pub display: Option<FmtFn>,
    pub debug: Option<FmtFn>,
    pub into_str: Option<fn(usize) -> &'static str>,
    pub from_str_fn: Option<fn(&str) -> Option<D>>,
    pub from_str_trait: Option<fn(&str) -> Option<D>>,
    pub min: Option<fn() -> D>,
    pub max: Option<fn() -> D>,
    pub next: Option<fn(usize) -> Option<D>>,
    pub next_back: Option<fn(usize) -> Option<D>>,
    pub iter: Option<IterFn>,
    pub range: Option<RangeFn>,
    pub names: Option<IterFn>,
    pub zip: Option<fn(&mut dyn Sink)>,
}

/// Applies a script of iterator operations to the concrete iterator struct, so that
/// `nth_back`, `fold`, `rfold`, `last`, `len` hit the generated forwarders.
pub fn run_history<I, T>(mut it: I, ops: &[Op], conv: fn(T) -> Val, sink: &mut dyn Sink)
where
    I: Iterator<Item = T> + DoubleEndedIterator + ExactSizeIterator,
{
    let mut idx = 0;
    while idx < ops.len() {
        let op = ops[idx];
        sink.op(idx, op);
        match op {
            Op::Next => sink.item(it.next().map(conv)),
            Op::NextBack => sink.item(it.next_back().map(conv)),
            Op::Nth(k) => sink.item(it.nth(k).map(conv)),
            Op::NthBack(k) => sink.item(it.nth_back(k).map(conv)),
            Op::Len => sink.len(it.len()),
            Op::SizeHint => {
                let (lo, hi) = it.size_hint();
                sink.size_hint(lo, hi)
            }
            Op::Fold => {
                it.fold((), |(), x| sink.seq_item(conv(x)));
                sink.seq_end();
                return;
            }
            Op::RFold => {
                it.rfold((), |(), x| sink.seq_item(conv(x)));
                sink.seq_end();
                return;
            }
            Op::Last => {
                sink.item(it.last().map(conv));
                return;
            }
            Op::Count => {
                sink.count(it.count());
                return;
            }
            Op::Collect => {
                // what `collect` does: drive `next` to exhaustion
                for x in it {
                    sink.seq_item(conv(x));
                }
                sink.seq_end();
                return;
            }
            Op::RevCollect => {
                for x in it.rev() {
                    sink.seq_item(conv(x));
                }
                sink.seq_end();
                return;
            }
            Op::TryFoldStop(k) => {
                let mut seen = 0usize;
                let _ = it.try_fold((), |(), x| {
                    sink.seq_item(conv(x));
                    seen += 1;
                    if seen >= k {
                        Err(())
                    } else {
                        Ok(())
                    }
                });
                sink.seq_end();
                return;
            }
            Op::TryRFoldStop(k) => {
                let mut seen = 0usize;
                let _ = it.try_rfold((), |(), x| {
                    sink.seq_item(conv(x));
                    seen += 1;
                    if seen >= k {
                        Err(())
                    } else {
                        Ok(())
                    }
                });
                sink.seq_end();
                return;
            }
            Op::FindNth(k) => {
                let mut c = 0usize;
                let r = it.find(|_| {
                    c += 1;
                    c > k
                });
                sink.item(r.map(conv));
                return;
            }
            Op::Position(k) => {
                let mut c = 0usize;
                let r = it.position(|_| {
                    c += 1;
                    c > k
                });
                sink.opt_index(r);
                return;
            }
            Op::RPosition(k) => {
                let mut c = 0usize;
                let r = it.rposition(|_| {
                    c += 1;
                    c > k
                });
                sink.opt_index(r);
                return;
            }
            Op::StepBy(s) => {
                for x in it.step_by(if s == 0 { 1 } else { s }) {
                    sink.seq_item(conv(x));
                }
                sink.seq_end();
                return;
            }
            Op::SkipTake(a, b) => {
                for x in it.skip(a).take(b) {
                    sink.seq_item(conv(x));
                }
                sink.seq_end();
                return;
            }
            Op::RevNth(k) => {
                sink.item(it.rev().nth(k).map(conv));
                return;
            }
            Op::Min | Op::Max => {
                // needs Ord items: see run_history_ord
                sink.seq_end();
                return;
            }
        }
        idx += 1;
    }
}

/// like `run_history`, for iterators whose items are `Ord`: a trailing `Min` / `Max` is applied
/// through `Iterator::min` / `Iterator::max` themselves
pub fn run_history_ord<I, T>(mut it: I, ops: &[Op], conv: fn(T) -> Val, sink: &mut dyn Sink)
where
    I: Iterator<Item = T> + DoubleEndedIterator + ExactSizeIterator,
    T: Ord,
{
    if let Some((last, head)) = ops.split_last() {
        if matches!(last, Op::Min | Op::Max) {
            // the prefix contains no consuming operation
            let mut idx = 0;
            while idx < head.len() {
                let op = head[idx];
                sink.op(idx, op);
                match op {
                    Op::Next => sink.item(it.next().map(conv)),
                    Op::NextBack => sink.item(it.next_back().map(conv)),
                    Op::Nth(k) => sink.item(it.nth(k).map(conv)),
                    Op::NthBack(k) => sink.item(it.nth_back(k).map(conv)),
                    Op::Len => sink.len(it.len()),
                    Op::SizeHint => {
                        let (lo, hi) = it.size_hint();
                        sink.size_hint(lo, hi)
                    }
                    _ => {}
                }
                idx += 1;
            }
            sink.op(head.len(), *last);
            let r = if matches!(last, Op::Min) { it.min() } else { it.max() };
            sink.item(r.map(conv));
            return;
        }
    }
    run_history(it, ops, conv, sink)
}
